// vcheck: solver-based checking of go-libp2p-pubsub properties with the symgo evaluator.
//
//	vcheck run <PROP> [--tier quick|thorough] [--only substr] [--no-replay] [--trace]
//	vcheck list
//	vcheck replay <file>
//	vcheck selftest
package main

import (
	"os/signal"
	"syscall"
	"encoding/json"
	"flag"
	"fmt"
	"os"
	"path/filepath"
	"sort"
	"strconv"
	"strings"
	"sync"
	"time"

	"symgo/eng"
)

var (
	repoDir  = "/repo"
	verifDir = "/verif"
)

func main() {
	sig := make(chan os.Signal, 1)
	signal.Notify(sig, syscall.SIGTERM, syscall.SIGINT, syscall.SIGHUP)
	go func() {
		<-sig
		eng.KillSolvers()
		os.Exit(143)
	}()
	os.Setenv("PATH", eng.GoBin+":"+os.Getenv("PATH"))
	os.Setenv("GOFLAGS", "-mod=mod")
	os.Setenv("GOPROXY", "off")
	os.Setenv("GOSUMDB", "off")
	os.Setenv("GOTOOLCHAIN", "local")
	if r := os.Getenv("VERIF_REPO"); r != "" {
		// development aid (seeded-change evaluation on a scratch worktree); registered commands never set it
		repoDir = r
	}
	if d := os.Getenv("VERIF_DIR"); d != "" {
		// development aid (background runs from a snapshot of /verif); registered commands never set it
		verifDir = d
	}
	if len(os.Args) < 2 {
		usage()
	}
	switch os.Args[1] {
	case "run":
		os.Exit(cmdRun(os.Args[2:]))
	case "list":
		os.Exit(cmdList())
	case "replay":
		os.Exit(cmdReplay(os.Args[2:]))
	case "selftest":
		os.Exit(cmdSelftest(os.Args[2:]))
	default:
		usage()
	}
}

func usage() {
	fmt.Fprintln(os.Stderr, "usage: vcheck run <PROP> [--tier quick|thorough] | list | replay <file> | selftest")
	os.Exit(2)
}

func loadKnown() []eng.KnownFinding {
	b, err := os.ReadFile(filepath.Join(verifDir, "known_findings.json"))
	if err != nil {
		return nil
	}
	var f struct {
		Findings []eng.KnownFinding `json:"findings"`
	}
	if err := json.Unmarshal(b, &f); err != nil {
		fmt.Fprintln(os.Stderr, "known_findings.json:", err)
		return nil
	}
	return f.Findings
}

func cmdList() int {
	l, err := eng.Load(repoDir, filepath.Join(verifDir, "harness"))
	if err != nil {
		fmt.Println("INCONCLUSIVE reason=load:", err)
		return 2
	}
	for _, h := range l.Harnesses {
		fmt.Printf("%s\t%s\t%s\tthorough=%v threads=%v\n", h.Prop, h.Name, h.PkgKey, h.Thorough, h.Threads)
	}
	return 0
}

func cmdRun(args []string) int {
	if len(args) < 1 {
		usage()
	}
	prop := args[0]
	fs := flag.NewFlagSet("run", flag.ExitOnError)
	tier := fs.String("tier", "", "quick|thorough")
	only := fs.String("only", "", "run only harnesses whose name contains this")
	noReplay := fs.Bool("no-replay", false, "skip native replay / translator validation")
	trace := fs.Bool("trace", false, "trace calls")
	par := fs.Int("par", 6, "harnesses evaluated in parallel")
	noEvidence := fs.Bool("no-evidence", false, "do not write the evidence file")
	fs.Parse(args[1:])
	if *tier == "" {
		*tier = os.Getenv("VERIF_TIER")
	}
	if *tier != "thorough" {
		*tier = "quick"
	}
	seed := 0
	if s := os.Getenv("VERIF_SEED"); s != "" {
		seed, _ = strconv.Atoi(s)
	}
	t0 := time.Now()
	l, err := eng.Load(repoDir, filepath.Join(verifDir, "harness"))
	if err != nil {
		fmt.Printf("INCONCLUSIVE property=%s reason=load: %v\n", prop, err)
		return 2
	}
	var hs []*eng.HarnessFn
	for _, h := range l.Harnesses {
		if h.Prop != prop {
			continue
		}
		if h.Thorough && *tier != "thorough" {
			continue
		}
		if *only != "" && !strings.Contains(h.Name, *only) {
			continue
		}
		hs = append(hs, h)
	}
	if len(hs) == 0 {
		fmt.Printf("INCONCLUSIVE property=%s reason=no harness found\n", prop)
		return 2
	}
	timeout := 120000
	if *tier == "thorough" {
		timeout = 600000
	}
	if s := os.Getenv("VERIF_QUERY_TIMEOUT_MS"); s != "" {
		timeout, _ = strconv.Atoi(s)
	}
	cfg := eng.RunConfig{Tier: *tier, TimeoutMs: timeout, Workers: 10, Trace: *trace, Known: loadKnown()}
	if f := os.Getenv("VERIF_ENGINE_REPLAY"); f != "" {
		// debugging aid: evaluate the harness in the engine with the values of a replay file
		b, err := os.ReadFile(f)
		if err == nil {
			var rf eng.ReplayFile
			if json.Unmarshal(b, &rf) == nil {
				cfg.Fixed = rf.Values
				*noReplay = true
				*noEvidence = true
			}
		}
	}
	results := make([]*eng.HarnessResult, len(hs))
	sem := make(chan struct{}, *par)
	var wg sync.WaitGroup
	for i, h := range hs {
		wg.Add(1)
		go func(i int, h *eng.HarnessFn) {
			defer wg.Done()
			sem <- struct{}{}
			defer func() { <-sem }()
			results[i] = eng.RunHarness(l, h, cfg)
			r := results[i]
			fmt.Printf("  %-44s %-12s obl=%d(triv %d) sat=%d unk=%d covers=%d/%d blocks=%d instrs=%d terms=%d q=%d exec=%.1fs wall=%.1fs %s\n",
				h.Name, r.Status, r.Obligations, r.Trivial, r.Sat, r.Unknown, r.CoversHit, r.CoversTotal, r.Blocks, r.Instrs, r.Terms, r.Queries+r.FeasQueries, r.ExecWall, r.Wall, oneLine(r.Reason))
		}(i, h)
	}
	wg.Wait()

	// native replay: counterexamples (must reproduce) and a sample per harness (translator validation)
	exit := 0
	replayDir := filepath.Join(verifDir, "replays", prop)
	validated := 0
	var violLines []string
	if !*noReplay {
		byPkg := map[string][]string{}
		type pending struct {
			v *eng.Violation
			s *eng.Sample
			h string
			more []*eng.Violation // further violations with the very same model (same replay file)
		}
		pend := map[string]*pending{}
		tmpSamples, _ := os.MkdirTemp("", "vcheck-samples-")
		defer os.RemoveAll(tmpSamples)
		for i, r := range results {
			pk := hs[i].PkgKey
			if r.NoNative || hs[i].Threads {
				// environment outcomes of this harness are uninterpreted (no native realisation), or it is a thread harness whose
				// counterexample is one explicit schedule (native goroutine scheduling cannot be steered): a counterexample is
				// confirmed by re-executing the harness in the engine with the model's concrete values and decisions
				nv := 0
				for _, v := range r.Violations {
					if v.Known != "" || nv >= 3 {
						continue
					}
					nv++
					p, err := eng.WriteReplay(replayDir, &eng.ReplayFile{Harness: r.Name, Property: prop, Tier: *tier, Values: v.Values, Pretty: v.Pretty,
						Failed: map[string]string{"kind": v.Kind, "label": v.Label, "pos": v.Pos}, Expect: "fail:" + v.Label})
					if err == nil {
						v.Replay = p
					}
					c2 := cfg
					c2.Fixed = v.Values
					r2 := eng.RunHarness(l, hs[i], c2)
					for _, v2 := range r2.Violations {
						if v2.Label == v.Label {
							v.Reproduced = true
						}
					}
					v.ReplayOut = "engine re-execution with concrete values: " + r2.Status
				}
				continue
			}
			nv := 0
			for _, v := range r.Violations {
				if v.Known != "" || nv >= 8 {
					continue
				}
				nv++
				p, err := eng.WriteReplay(replayDir, &eng.ReplayFile{Harness: r.Name, Property: prop, Tier: *tier, Values: v.Values, Pretty: v.Pretty,
					Failed: map[string]string{"kind": v.Kind, "label": v.Label, "pos": v.Pos}, Expect: "fail:" + v.Label})
				if err == nil {
					v.Replay = p
					if old := pend[p]; old != nil && old.v != nil {
						old.more = append(old.more, v)
						continue
					}
					byPkg[pk] = append(byPkg[pk], p)
					pend[p] = &pending{v: v, h: r.Name}
				}
			}
			// one sample per harness for translator validation (chosen by seed)
			if len(r.Samples) > 0 && r.Status == "ok" {
				s := r.Samples[seed%len(r.Samples)]
				p, err := eng.WriteReplay(tmpSamples, &eng.ReplayFile{Harness: r.Name, Property: prop, Tier: *tier, Values: sampleRaw(s), Expect: "cover:" + s.Cover})
				if err == nil {
					byPkg[pk] = append(byPkg[pk], p)
					pend[p] = &pending{s: s, h: r.Name}
				}
			}
		}
		for pk, files := range byPkg {
			outs, err := eng.NativeReplay(l, pk, files, 10*time.Minute)
			if err != nil {
				fmt.Println("replay error:", err)
				continue
			}
			for f, o := range outs {
				p := pend[f]
				if p.v != nil {
					p.v.ReplayOut = summarizeOutcome(o)
					if !o.OK {
						p.v.ReplayOut += " | " + tailLines(o.Output, 15)
					}
					p.v.Reproduced = reproduced(p.v, o)
					for _, v2 := range p.more {
						v2.ReplayOut = p.v.ReplayOut
						v2.Reproduced = reproduced(v2, o)
					}
					// a counterexample that depends on the ORDER in which independent goroutines deliver their results (bag
					// channel choices, "bagrecv" values) is one explicit schedule: native goroutine scheduling cannot be steered,
					// so like thread counterexamples it is confirmed by re-executing the harness in the engine with the model's
					// concrete values
					for _, vv := range append([]*eng.Violation{p.v}, p.more...) {
						if vv.Reproduced || !scheduleDependent(vv) {
							continue
						}
						for i, r := range results {
							if r.Name != p.h {
								continue
							}
							c2 := cfg
							c2.Fixed = vv.Values
							r2 := eng.RunHarness(l, hs[i], c2)
							for _, v3 := range r2.Violations {
								if v3.Label == vv.Label {
									vv.Reproduced = true
								}
							}
							vv.ReplayOut += " | schedule-dependent (result order of independent goroutines): engine re-execution with concrete values: " + r2.Status
						}
					}
				} else if p.s != nil {
					if o.OK && o.Covered[p.s.Cover] && len(o.Failed) == 0 && o.Panicked == "" {
						p.s.ValidatedNatively = true
						validated++
					} else {
						fmt.Printf("  translator-validation mismatch: harness=%s cover=%q native=%s\n", p.h, p.s.Cover, summarizeOutcome(o))
						if !o.OK {
							fmt.Println(tailLines(o.Output, 25))
						}
						// a sample that satisfies the engine's path condition but not the native one means the
						// encoding and the real code disagree: never report success
						for _, r := range results {
							if r.Name == p.h && r.Status == "ok" {
								r.Status = "inconclusive"
								r.Reason = "translator validation failed for cover " + p.s.Cover + ": " + summarizeOutcome(o)
							}
						}
					}
				}
			}
		}
	}
	for _, r := range results {
		for _, kl := range r.KnownLines {
			fmt.Println(kl)
		}
	}
	nViol := 0
	for _, r := range results {
		for _, v := range r.Violations {
			if v.Known != "" {
				continue
			}
			if *noReplay || v.Reproduced {
				nViol++
				violLines = append(violLines, fmt.Sprintf("VIOLATION property=%s replay=%s harness=%s kind=%s label=%q pos=%s values=%s", prop, v.Replay, r.Name, v.Kind, v.Label, v.Pos, compact(v.Pretty)))
				exit = 1
			} else if v.Replay == "" && v.ReplayOut == "" {
				// beyond the per-harness replay limit: reported by the engine, not replayed
				fmt.Printf("  further counterexample (not replayed, limit reached): harness=%s label=%q pos=%s\n", r.Name, v.Label, v.Pos)
			} else {
				fmt.Printf("  counterexample did NOT reproduce natively: harness=%s label=%q pos=%s values=%s native=%s\n", r.Name, v.Label, v.Pos, compact(v.Pretty), v.ReplayOut)
				if r.Status == "violation" {
					r.Status = "inconclusive"
					r.Reason = "counterexample did not reproduce natively (encoding or stub mismatch): " + v.Label
				}
			}
		}
	}
	for _, r := range results {
		if r.Status == "inconclusive" && exit == 0 {
			exit = 2
		}
	}
	for _, ln := range violLines {
		fmt.Println(ln)
	}
	for _, r := range results {
		if r.Status == "inconclusive" {
			fmt.Printf("INCONCLUSIVE property=%s harness=%s reason=%s\n", prop, r.Name, r.Reason)
		}
	}
	wall := time.Since(t0).Seconds()
	if !*noEvidence && *only == "" {
		writeEvidence(prop, *tier, seed, results, hs, l, wall, validated, nViol)
	}
	fmt.Printf("property=%s tier=%s harnesses=%d exit=%d wall=%.1fs load=%.1fs\n", prop, *tier, len(hs), exit, wall, l.LoadTime.Seconds())
	return exit
}

func sampleRaw(s *eng.Sample) map[string]uint64 { return eng.SampleRaw(s) }

func reproduced(v *eng.Violation, o *eng.ReplayOutcome) bool {
	if !o.OK {
		return false
	}
	switch v.Kind {
	case "assert":
		for _, f := range o.Failed {
			if f == v.Label {
				return true
			}
		}
		return false
	case "panic":
		return o.Panicked != "" && !strings.Contains(o.Panicked, "did not finish")
	case "block":
		return strings.Contains(o.Panicked, "did not finish") || strings.Contains(o.Panicked, "deadlock")
	}
	return false
}

func summarizeOutcome(o *eng.ReplayOutcome) string {
	if !o.OK {
		return "native run produced no outcome"
	}
	return fmt.Sprintf("failed=%v panicked=%q assumeViolated=%v covered=%d", o.Failed, o.Panicked, o.AssumeViolated, len(o.Covered))
}

func tailLines(s string, n int) string {
	ls := strings.Split(strings.TrimSpace(s), "\n")
	if len(ls) > n {
		ls = ls[len(ls)-n:]
	}
	return strings.Join(ls, "\n")
}

func compact(m map[string]string) string {
	var ks []string
	for k := range m {
		ks = append(ks, k)
	}
	sort.Strings(ks)
	var sb strings.Builder
	for i, k := range ks {
		if i > 0 {
			sb.WriteString(",")
		}
		if sb.Len() > 600 {
			sb.WriteString("...")
			break
		}
		sb.WriteString(k + "=" + m[k])
	}
	return sb.String()
}

func oneLine(s string) string {
	if i := strings.Index(s, "\n"); i >= 0 {
		s = s[:i]
	}
	if len(s) > 200 {
		s = s[:200]
	}
	return s
}

func cmdReplay(args []string) int {
	if len(args) < 1 {
		usage()
	}
	b, err := os.ReadFile(args[0])
	if err != nil {
		fmt.Println(err)
		return 2
	}
	var rf eng.ReplayFile
	if err := json.Unmarshal(b, &rf); err != nil {
		fmt.Println(err)
		return 2
	}
	l, err := eng.Load(repoDir, filepath.Join(verifDir, "harness"))
	if err != nil {
		fmt.Println("load:", err)
		return 2
	}
	pk := ""
	var hf *eng.HarnessFn
	for _, h := range l.Harnesses {
		if h.Name == rf.Harness {
			pk = h.PkgKey
			hf = h
		}
	}
	if pk == "" {
		fmt.Println("unknown harness", rf.Harness)
		return 2
	}
	engineReplay := func() int {
		// deterministic re-execution in the engine with the recorded values (and scheduling decisions)
		cfg := eng.RunConfig{Tier: rf.Tier, TimeoutMs: 120000, Workers: 2, Fixed: rf.Values}
		r := eng.RunHarness(l, hf, cfg)
		for _, v := range r.Violations {
			fmt.Printf("engine re-execution: %s failed: %q at %s\n", v.Kind, v.Label, v.Pos)
		}
		if len(r.Violations) > 0 {
			fmt.Printf("VIOLATION property=%s replay=%s\n", rf.Property, args[0])
			return 1
		}
		fmt.Println("engine re-execution:", r.Status, r.Reason)
		return 0
	}
	if hf.Threads {
		return engineReplay()
	}
	abs, _ := filepath.Abs(args[0])
	outs, err := eng.NativeReplay(l, pk, []string{abs}, 10*time.Minute)
	if err != nil {
		fmt.Println(err)
		return 2
	}
	o := outs[abs]
	fmt.Println(summarizeOutcome(o))
	for _, ob := range o.Observed {
		fmt.Println("  observed:", ob)
	}
	if !o.OK {
		fmt.Println(o.Output)
		return 2
	}
	if len(o.Failed) > 0 || o.Panicked != "" {
		fmt.Printf("VIOLATION property=%s replay=%s\n", rf.Property, abs)
		return 1
	}
	// harnesses whose environment outcomes are uninterpreted have no native realisation: re-execute in the engine
	return engineReplay()
}

func scheduleDependent(v *eng.Violation) bool {
	for k := range v.Values {
		if strings.HasPrefix(k, "bagrecv#") {
			return true
		}
	}
	return false
}

func cmdSelftest(args []string) int {
	return cmdRun(append([]string{"S00", "--no-evidence"}, args...))
}
