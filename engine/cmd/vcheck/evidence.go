package main

import (
	"encoding/json"
	"fmt"
	"os"
	"path/filepath"
	"sort"
	"strings"

	"symgo/eng"
)

func writeEvidence(prop, tier string, seed int, results []*eng.HarnessResult, hs []*eng.HarnessFn, l *eng.Loaded, wall float64, validated, nViol int) {
	states, trans, obls, disch, queries, sat, unknown, trivial := 0, 0, 0, 0, 0, 0, 0, 0
	funcs := map[string]int{}
	stubs := map[string]int{}
	notes := map[string]int{}
	solverTime := map[string]float64{}
	var samples []interface{}
	var harnessRows []map[string]interface{}
	covers, coversHit := 0, 0
	knownMatched := []string{}
	for _, r := range results {
		states += r.Blocks
		trans += r.Instrs
		obls += r.Obligations
		disch += r.Discharged
		trivial += r.Trivial
		queries += r.Queries + r.FeasQueries
		sat += r.Sat
		unknown += r.Unknown
		covers += r.CoversTotal
		coversHit += r.CoversHit
		for k, v := range r.Funcs {
			funcs[k] += v
		}
		for k, v := range r.Stubs {
			stubs[k] += v
		}
		for k, v := range r.Notes {
			notes[k] += v
		}
		for k, v := range r.SolverTime {
			solverTime[k] += v
		}
		for i, s := range r.Samples {
			if i >= 2 && !s.ValidatedNatively {
				continue
			}
			samples = append(samples, map[string]interface{}{"harness": s.Harness, "cover": s.Cover, "validated_natively": s.ValidatedNatively, "values": trimMap(s.Values, 40)})
		}
		for _, v := range r.Violations {
			if v.Known != "" {
				knownMatched = append(knownMatched, fmt.Sprintf("%s: %s (%s)", r.Name, v.Label, v.Known))
			}
		}
		harnessRows = append(harnessRows, map[string]interface{}{
			"harness": r.Name, "status": r.Status, "reason": r.Reason, "obligations": r.Obligations, "trivially_discharged": r.Trivial, "discharged": r.Discharged,
			"sat": r.Sat, "unknown": r.Unknown, "asserts": r.Asserts, "covers": r.CoversTotal, "covers_hit": r.CoversHit, "nondet_vars": r.Nondets,
			"blocks": r.Blocks, "instructions": r.Instrs, "terms": r.Terms, "queries": r.Queries + r.FeasQueries, "exec_s": round(r.ExecWall), "wall_s": round(r.Wall),
			"unwind_bound": r.Unwind, "schedules": r.Schedules,
		})
	}
	if len(samples) == 0 {
		samples = append(samples, map[string]interface{}{"note": "no cover goal produced a model in this run"})
	}
	var fnames []string
	for k, v := range funcs {
		if strings.Contains(k, "vpH") {
			continue
		}
		fnames = append(fnames, fmt.Sprintf("%s ×%d", k, v))
	}
	sort.Strings(fnames)
	repoFns := []string{}
	otherFns := 0
	for _, f := range fnames {
		if strings.Contains(f, "go-libp2p-pubsub") {
			repoFns = append(repoFns, strings.ReplaceAll(f, "github.com/libp2p/go-libp2p-pubsub", "pubsub"))
		} else {
			otherFns++
		}
	}
	var stubNames []string
	for k, v := range stubs {
		stubNames = append(stubNames, fmt.Sprintf("%s ×%d", k, v))
	}
	sort.Strings(stubNames)
	var noteNames []string
	for k := range notes {
		noteNames = append(noteNames, k)
	}
	sort.Strings(noteNames)
	ev := map[string]interface{}{
		"property_id": prop,
		"tier":        tier,
		"seed":        seed,
		"level":       "model_checking",
		"wall_s":      round(wall),
		"violations":  nViol,
		"coverage": map[string]interface{}{
			"states":                        max1(states),
			"transitions":                   max1(trans),
			"traces_validated_against_impl": validated,
			"samples":                       samples,
			"explanation": "bounded symbolic model checking of the real code: go/ssa of /repo's working tree is evaluated by symgo under guards; " +
				"states = basic-block executions of the symbolic evaluator (each covers every input value consistent with its guard), transitions = SSA instructions evaluated; " +
				"every obligation (assertion, absence of panic, unwinding bound, non-blocking) is decided by an SMT solver over all values within the harness bounds",
			"obligations":            obls,
			"discharged":             disch,
			"discharged_trivially":   trivial,
			"sat":                    sat,
			"unknown":                unknown,
			"cover_goals":            covers,
			"cover_goals_hit":        coversHit,
			"queries":                queries,
			"solver_time_s":          solverTime,
			"harnesses":              harnessRows,
			"functions_encoded_repo": repoFns,
			"functions_encoded_deps": otherFns,
			"stubs_hit":              stubNames,
			"engine_notes":           noteNames,
			"known_findings_matched": knownMatched,
			"load_s":                 round(l.LoadTime.Seconds()),
			"exhaustive":             false,
		},
		"assumptions": []string{
			"bounds are those of each harness (universe sizes, loop unwinding checked by unwinding assertions); nothing is claimed outside them",
			"environment stubs: virtual clock (time.Now moved only by the harness, as in testing/synctest), math/rand outcomes arbitrary, loggers and fmt are no-ops, sync primitives sequential unless the harness is a thread harness",
			"go/ssa (x/tools v0.50.0) lowering, symgo's instruction semantics (cross-checked by vcheck selftest and native replay of solver-chosen samples), z3 5.1.0 (bit-vectors, Booleans) / cvc5 1.0.3 (floating point)", "models in place of two environment-facing functions where a harness uses them: record.ConsumeEnvelope (tagged test envelopes -> outcome classes; natively really signed envelopes) and peerScore.getIPs (addresses of the fake network; natively the real parser on the fake connections' multiaddrs)",
			"harness oracles and invariants under /verif/harness are written from the property statements",
		},
	}
	os.MkdirAll(filepath.Join(verifDir, "evidence"), 0o755)
	b, _ := json.MarshalIndent(ev, "", " ")
	os.WriteFile(filepath.Join(verifDir, "evidence", prop+".json"), b, 0o644)
}

func trimMap(m map[string]string, n int) map[string]string {
	if len(m) <= n {
		return m
	}
	var ks []string
	for k := range m {
		ks = append(ks, k)
	}
	sort.Strings(ks)
	out := map[string]string{}
	for _, k := range ks[:n] {
		out[k] = m[k]
	}
	out["..."] = fmt.Sprintf("%d more", len(m)-n)
	return out
}

func round(f float64) float64 { return float64(int(f*100)) / 100 }

func max1(n int) int {
	if n < 1 {
		return 1
	}
	return n
}
