package eng

import (
	"sync"
	"time"
	"fmt"
	"go/constant"
	"go/token"
	"go/types"
	"os"
	"sort"
	"strings"

	"golang.org/x/tools/go/ssa"
)

// ---------------------------------------------------------------------------------------------
// Engine

type Obligation struct {
	Kind    string // assert | panic | unwind | block | bound
	Label   string
	Pos     string
	Cond    *Term // violation condition (guard ∧ bad); must be UNSAT together with Assume
	Assume  *Term // conjunction of assumptions in force at that point
	Harness string
	// results
	Result string
	Model  Model
	Solver string
}

type Cover struct {
	Label  string
	Pos    string
	Cond   *Term
	Assume *Term
	Result string
	Model  Model
}

type Nondet struct {
	Name string // tag#occ
	Tag  string
	Occ  int
	T    *Term
	Kind string // bool int float byte
	Lo, Hi int64
}

type PendingGo struct {
	Fn   Value
	Args []Value
	G    *Term
	Pos  string
	Done bool
}

type Catcher struct {
	PanicG *Term
	BlockG *Term
	CatchPanic bool
	CatchBlock bool
}

type Unsupported struct{ Msg string }

func (u *Unsupported) Error() string { return u.Msg }

type Options struct {
	Unwind     int
	MaxAlloc   int
	MinCap     int
	GoCap      bool
	FeasFrom   int
	Trace      bool
	FeasChecks bool
}

type Engine struct {
	tb      *TB
	prog    *ssa.Program
	opts    Options
	objSeq  int
	globals map[*ssa.Global]*Object
	G       *Term // current guard
	assume  *Term
	obls    []*Obligation
	covers  []*Cover
	nondets []*Nondet
	ndOcc   map[string]int
	clock   *Term
	tickPreload bool
	tickAll     bool
	idShuffle   bool
	pending []*PendingGo
	cfgs    map[*ssa.Function]*FuncCFG
	catchers []*Catcher
	ghost   map[string]*Term
	feas    *Solver
	feasCache map[[2]int]bool
	harness string
	depth   int
	// stats
	nBlocks, nInstrs, nFeas int
	funcs   map[string]int
	stubs   map[string]int
	notes   map[string]int
	intr    map[string]intrinsic
	markers map[string]*types.Named
	errTexts map[*Object]string
	initDone map[*ssa.Package]bool
	inInit  bool
	observations []Observation
	repoPkgPrefix string
	curPos  token.Pos
	threads *threadState
	asserts int
	threadRun bool
	views   map[string]*Object
	crypto  map[string]*Term
	keyAuthor, keyOther *IfaceV
	verifyCalls int
	NoNative bool
	bagChans bool
	stampSeq int
	fixed   map[string]uint64
	feasBase *Solver
	feasDone map[int]bool
	arrPool map[string][]*Object
	kills   int
	feasTimeouts int
	trivObls int
	tier    int64
	doneChans map[string]*Object
	ctxChildren map[*Object][]*Object
	bgCtx   *Object
	cancelErr *IfaceV
	wrapped map[*Object][]*IfaceV
}

type Observation struct {
	Label string
	V     Value
	G     *Term
}

func NewEngine(prog *ssa.Program, opts Options) *Engine {
	e := &Engine{tb: NewTB(), prog: prog, opts: opts, globals: map[*ssa.Global]*Object{}, ndOcc: map[string]int{},
		cfgs: map[*ssa.Function]*FuncCFG{}, ghost: map[string]*Term{}, feasCache: map[[2]int]bool{},
		funcs: map[string]int{}, stubs: map[string]int{}, notes: map[string]int{}, markers: map[string]*types.Named{},
		errTexts: map[*Object]string{}, initDone: map[*ssa.Package]bool{}, wrapped: map[*Object][]*IfaceV{}}
	e.G = e.tb.True
	e.assume = e.tb.True
	e.clock = e.tb.Int(946684800 * 1e9) // synctest bubble epoch: 2000-01-01T00:00:00Z
	if e.opts.Unwind == 0 {
		e.opts.Unwind = 12
	}
	if e.opts.FeasFrom == 0 {
		e.opts.FeasFrom = 2
	}
	if e.opts.MinCap == 0 {
		e.opts.MinCap = 8
	}
	if e.opts.MaxAlloc == 0 {
		e.opts.MaxAlloc = 16
	}
	e.repoPkgPrefix = "github.com/libp2p/go-libp2p-pubsub"
	e.initIntrinsics()
	return e
}

func (e *Engine) unsupported(format string, args ...interface{}) *Unsupported {
	msg := fmt.Sprintf(format, args...)
	if e.curPos.IsValid() {
		msg += " at " + e.posStr(e.curPos)
	}
	return &Unsupported{msg}
}

func (e *Engine) posStr(p token.Pos) string {
	if !p.IsValid() {
		return "?"
	}
	pp := e.prog.Fset.Position(p)
	f := pp.Filename
	if i := strings.LastIndex(f, "/"); i >= 0 {
		// keep last two path elements
		if j := strings.LastIndex(f[:i], "/"); j >= 0 {
			f = f[j+1:]
		}
	}
	return fmt.Sprintf("%s:%d", f, pp.Line)
}

func (e *Engine) note(s string) { e.notes[s]++ }

// ---------------------------------------------------------------------------------------------
// Obligations, assumptions, panics, blocking

func (e *Engine) addObl(kind, label string, pos token.Pos, bad *Term) {
	cond := e.tb.And(e.G, bad)
	if cond.IsFalse() {
		e.trivObls++
		return
	}
	e.obls = append(e.obls, &Obligation{Kind: kind, Label: label, Pos: e.posStr(pos), Cond: cond, Assume: e.assume, Harness: e.harness})
}

func (e *Engine) addAssume(c *Term) {
	if e.fixed != nil && e.tb.Implies(e.G, c).IsFalse() {
		fmt.Fprintf(os.Stderr, "ASSUME violated under fixed values at %s\n", e.posStr(e.curPos))
	}
	e.assume = e.tb.And(e.assume, e.tb.Implies(e.G, c))
}

// runtimePanic records that the current path panics when bad holds, and continues under ¬bad.
func (e *Engine) runtimePanic(label string, pos token.Pos, bad *Term) {
	if bad.IsFalse() {
		return
	}
	g := e.tb.And(e.G, bad)
	if g.IsFalse() {
		return
	}
	if c := e.catcher(true); c != nil {
		c.PanicG = e.tb.Or(c.PanicG, g)
	} else {
		e.addObl("panic", label, pos, bad)
	}
	e.kills++
	e.G = e.tb.And(e.G, e.tb.Not(bad))
}

func (e *Engine) wouldBlock(label string, pos token.Pos, bad *Term) {
	if bad.IsFalse() {
		return
	}
	g := e.tb.And(e.G, bad)
	if g.IsFalse() {
		return
	}
	if c := e.catcher(false); c != nil {
		c.BlockG = e.tb.Or(c.BlockG, g)
	} else {
		e.addObl("block", label, pos, bad)
	}
	e.kills++
	e.G = e.tb.And(e.G, e.tb.Not(bad))
}

func (e *Engine) catcher(panicKind bool) *Catcher {
	for i := len(e.catchers) - 1; i >= 0; i-- {
		c := e.catchers[i]
		if panicKind && c.CatchPanic || !panicKind && c.CatchBlock {
			return c
		}
	}
	return nil
}

// feasible asks the solver whether assume ∧ g is satisfiable ("unknown" counts as feasible).
func (e *Engine) andAssume(cs ...*Term) {
	for _, c := range cs {
		if e.fixed != nil && c.IsFalse() {
			fmt.Fprintf(os.Stderr, "input-domain assumption violated under fixed values at %s\n", e.posStr(e.curPos))
		}
		e.assume = e.tb.And(e.assume, c)
	}
}

func conjunctsOf(t *Term) []*Term {
	if t.Op == OpAnd {
		return t.Args
	}
	if t.IsTrue() {
		return nil
	}
	return []*Term{t}
}

func (e *Engine) feasible(g *Term) bool {
	if g.IsFalse() {
		return false
	}
	if g.IsTrue() {
		return true
	}
	key := [2]int{e.assume.ID, g.ID}
	if r, ok := e.feasCache[key]; ok {
		return r
	}
	if e.feas == nil || e.feas.dead {
		kind := BVSolver
		s, err := StartSolver(kind, 3000)
		if err != nil {
			return true
		}
		e.feas = s
	}
	e.nFeas++
	var r string
	if e.feasTimeouts >= 4 {
		r = "unknown"
	} else if g.HasFPOp() || e.assume.HasFPOp() {
		// keep the fast path on z3; FP-heavy guards are treated as feasible
		r = "unknown"
	} else {
		t0 := time.Now()
		// assumptions only ever grow: assert the new conjuncts permanently, push/pop only the guard
		if e.feasBase != e.feas {
			e.feasBase = e.feas
			e.feasDone = map[int]bool{}
		}
		var fresh []*Term
		for _, c := range conjunctsOf(e.assume) {
			if !e.feasDone[c.ID] {
				e.feasDone[c.ID] = true
				fresh = append(fresh, c)
			}
		}
		e.feas.AssertPermanent(fresh)
		r, _ = e.feas.Check([]*Term{g}, nil)
		if d := time.Since(t0); d > 500*time.Millisecond && os.Getenv("VERIF_PROGRESS") != "" {
			fmt.Fprintf(os.Stderr, "  slow feasibility query: %s %.1fs at %s\n", r, d.Seconds(), e.posStr(e.curPos))
			if os.Getenv("VERIF_PROGRESS") == "2" {
				fmt.Fprintf(os.Stderr, "    guard: %s\n", g.Dump(6))
			}
		}
		if r == "unknown" {
			e.feasTimeouts++
			e.note("feasibility query timed out (branch kept)")
		}
	}
	ok := r != "unsat"
	e.feasCache[key] = ok
	return ok
}

// ---------------------------------------------------------------------------------------------
// Frames

type Deferred struct {
	G    *Term
	Call func()
}

type Frame struct {
	fn      *ssa.Function
	regs    map[ssa.Value]Value
	defers  []*Deferred
	rets    []retArrival
	cfg     *FuncCFG
	skipG   map[*ssa.BasicBlock]*Term // slot-wise map range: guard of "entry absent, continue" per header block
	iterStamp int
	symExit map[*Loop]bool            // a symbolic branch left this loop during the current iteration
	concHdr map[*Loop]bool            // the loop header's branch was concrete in the current iteration
	endG    map[*ssa.BasicBlock]endGuard // guard at the terminator of each evaluated block (current iteration)
}

type endGuard struct {
	G     *Term
	Kills int
	Iter  int // loop-iteration stamp
}

type retArrival struct {
	G *Term
	V Value
}

type Arrival struct {
	G    *Term
	Pred *ssa.BasicBlock // nil: function entry
	PredIdx int          // index into target.Preds; -1 entry; -2 self-skip (map range)
	Snap map[ssa.Value]Value
}

func (e *Engine) cfgOf(fn *ssa.Function) *FuncCFG {
	c := e.cfgs[fn]
	if c == nil {
		c = buildCFG(fn)
		e.cfgs[fn] = c
	}
	return c
}

var buildMu sync.Mutex

func (e *Engine) ensureBody(fn *ssa.Function) {
	// harnesses run in parallel on one ssa.Program: serialise on-demand building of dependency packages
	buildMu.Lock()
	defer buildMu.Unlock()
	if fn.Blocks == nil && fn.Pkg != nil {
		fn.Pkg.Build()
	}
	if fn.Blocks == nil && fn.Synthetic != "" {
		// wrappers/bound methods/instantiations are built on demand by the program
	}
}

// CallFunction evaluates fn on args under the current guard; afterwards e.G is the guard of normal return.
func (e *Engine) CallFunction(fn *ssa.Function, args []Value, bind []Value) Value {
	e.ensureBody(fn)
	if fn.Blocks == nil {
		panic(e.unsupported("call of function without body: %s", fn.String()))
	}
	if e.depth > 200 {
		panic(e.unsupported("call depth exceeded at %s", fn.String()))
	}
	e.depth++
	defer func() { e.depth-- }()
	name := fn.String()
	e.funcs[name]++
	fr := &Frame{fn: fn, regs: make(map[ssa.Value]Value, 64), cfg: e.cfgOf(fn)}
	if fr.cfg.Irreducible {
		panic(e.unsupported("irreducible control flow in %s", name))
	}
	if len(args) != len(fn.Params) {
		panic(e.unsupported("arity mismatch calling %s: %d vs %d", name, len(args), len(fn.Params)))
	}
	for i, p := range fn.Params {
		fr.regs[p] = args[i]
	}
	for i, fv := range fn.FreeVars {
		fr.regs[fv] = bind[i]
	}
	if e.opts.Trace {
		fmt.Fprintf(os.Stderr, "%*scall %s\n", e.depth, "", name)
	}
	savedPos := e.curPos
	entryG, kills0 := e.G, e.kills
	e.evalRegion(fr, fr.cfg.Root, []Arrival{{G: e.G, PredIdx: -1}}, nil)
	e.curPos = savedPos
	// merge returns
	if len(fr.rets) == 0 {
		e.G = e.tb.False
		return nil
	}
	gs := make([]*Term, len(fr.rets))
	vs := make([]Value, len(fr.rets))
	exit := e.tb.False
	for i, r := range fr.rets {
		gs[i], vs[i] = r.G, r.V
		exit = e.tb.Or(exit, r.G)
	}
	e.G = exit
	if e.kills == kills0 && os.Getenv("VERIF_CHECK_CALLG") != "" && exit != entryG {
		// debugging: the shortcut below claims exit == entryG (modulo assumptions)
		diff := e.tb.Or(e.tb.And(exit, e.tb.Not(entryG)), e.tb.And(entryG, e.tb.Not(exit)))
		if e.feasible(diff) {
			fmt.Fprintf(os.Stderr, "CALLG MISMATCH in %s: entry=%s exit=%s\n", name, entryG.Dump(3), exit.Dump(3))
		}
	}
	if e.kills == kills0 && os.Getenv("VERIF_NO_CALLG") == "" {
		// nothing died inside the call: the disjunction of the return guards is the entry guard
		e.G = entryG
	}
	if vs[0] == nil {
		return nil
	}
	return e.mergeMany(gs, vs)
}

// evalRegion processes the items of region l once. entry are the arrivals at l.Header.
// Exits to blocks outside the region are appended to *outs (nil for the root region);
// back edges to l.Header are returned.
func (e *Engine) evalRegion(fr *Frame, l *Loop, entry []Arrival, outs *map[*ssa.BasicBlock][]Arrival) (back []Arrival) {
	pending := map[*ssa.BasicBlock][]Arrival{l.Header: entry}
	route := func(to *ssa.BasicBlock, a Arrival, first bool) {
		if to == l.Header && !first {
			back = append(back, a)
			return
		}
		if l.Blocks[to] {
			pending[to] = append(pending[to], a)
			return
		}
		if outs == nil {
			panic("edge leaves root region")
		}
		(*outs)[to] = append((*outs)[to], a)
	}
	for _, it := range l.Items {
		if it.Block != nil {
			as := pending[it.Block]
			if len(as) == 0 {
				continue
			}
			delete(pending, it.Block)
			e.evalBlock(fr, it.Block, as, func(to *ssa.BasicBlock, a Arrival) { route(to, a, false) })
		} else {
			as := pending[it.Loop.Header]
			if len(as) == 0 {
				continue
			}
			delete(pending, it.Loop.Header)
			exits := e.evalLoop(fr, it.Loop, as)
			// deterministic order
			var keys []*ssa.BasicBlock
			for k := range exits {
				keys = append(keys, k)
			}
			sort.Slice(keys, func(i, j int) bool { return keys[i].Index < keys[j].Index })
			for _, k := range keys {
				for _, a := range exits[k] {
					route(k, a, false)
				}
			}
		}
	}
	return back
}

func headerPos(l *Loop) token.Pos {
	for _, ins := range l.Header.Instrs {
		if ins.Pos().IsValid() {
			return ins.Pos()
		}
	}
	for b := range l.Blocks {
		for _, ins := range b.Instrs {
			if ins.Pos().IsValid() {
				return ins.Pos()
			}
		}
	}
	return token.NoPos
}

func (e *Engine) evalLoop(fr *Frame, l *Loop, arrivals []Arrival) map[*ssa.BasicBlock][]Arrival {
	exits := map[*ssa.BasicBlock][]Arrival{}
	needCheck := false
	concrete := false
	for i := 0; ; i++ {
		if len(arrivals) == 0 {
			break
		}
		any := e.tb.False
		for _, a := range arrivals {
			any = e.tb.Or(any, a.G)
		}
		if any.IsFalse() {
			break
		}
		if i >= e.opts.FeasFrom && needCheck && !any.IsTrue() && !e.feasible(any) {
			break
		}
		if i >= e.opts.Unwind && !(concrete && i < 512) {
			if os.Getenv("VERIF_PROGRESS") != "" {
				fmt.Fprintf(os.Stderr, "unwinding bound hit in %s at %s: arrivals=%d any=%s\n", fr.fn.Name(), e.posStr(headerPos(l)), len(arrivals), any.Dump(3))
				for _, a := range arrivals {
					fmt.Fprintf(os.Stderr, "   arrival predIdx=%d g=%s\n", a.PredIdx, a.G.Dump(2))
				}
			}
			// unwinding assertion: no execution needs another iteration
			saved := e.G
			e.G = e.tb.True
			e.obls = append(e.obls, &Obligation{Kind: "unwind", Label: fmt.Sprintf("loop in %s needs more than %d iterations", fr.fn.Name(), e.opts.Unwind),
				Pos: e.posStr(headerPos(l)), Cond: any, Assume: e.assume, Harness: e.harness})
			e.G = saved
			break
		}
		if fr.symExit == nil {
			fr.symExit = map[*Loop]bool{}
		}
		fr.symExit[l] = false
		if fr.concHdr == nil {
			fr.concHdr = map[*Loop]bool{}
		}
		fr.concHdr[l] = false
		e.stampSeq++
		fr.iterStamp = e.stampSeq
		k0 := e.kills
		arrivals = e.evalRegion(fr, l, arrivals, &exits)
		needCheck = (fr.symExit[l] || e.kills != k0) && !fr.concHdr[l]
		concrete = fr.concHdr[l] // header decided concretely (constant condition or slot-wise map range): terminates by itself
	}
	e.stampSeq++
	fr.iterStamp = e.stampSeq
	return exits
}

// lookupOperand resolves v, preferring the arrival's snapshot.
func (e *Engine) arrOperand(fr *Frame, a *Arrival, v ssa.Value) Value {
	if a.Snap != nil {
		if x, ok := a.Snap[v]; ok {
			return x
		}
	}
	return e.operand(fr, v)
}

func (e *Engine) evalBlock(fr *Frame, b *ssa.BasicBlock, as []Arrival, route func(*ssa.BasicBlock, Arrival)) {
	tb := e.tb
	e.nBlocks++
	// block guard
	G := tb.False
	for _, a := range as {
		G = tb.Or(G, a.G)
	}
	if G.IsFalse() {
		return
	}
	// a join block that post-dominates its immediate dominator gets the dominator's guard back when no
	// path died in between (classic merge at the post-dominator); this keeps guards small
	if len(as) > 1 && os.Getenv("VERIF_NO_PDOM") == "" {
		if d := b.Idom(); d != nil && fr.cfg.LoopOf[d] == fr.cfg.LoopOf[b] {
			if eg, ok := fr.endG[d]; ok && eg.Kills == e.kills && eg.Iter == fr.iterStamp && fr.cfg.PostDominates(b, d) {
				G = eg.G
			}
		}
	}
	// merge snapshots of loop-live-out registers
	hasSnap := false
	for i := range as {
		if as[i].Snap != nil {
			hasSnap = true
		}
	}
	if hasSnap {
		keys := map[ssa.Value]bool{}
		for i := range as {
			for k := range as[i].Snap {
				keys[k] = true
			}
		}
		for k := range keys {
			var gs []*Term
			var vs []Value
			for i := range as {
				if x, ok := as[i].Snap[k]; ok && x != nil {
					gs = append(gs, as[i].G)
					vs = append(vs, x)
				}
			}
			if len(vs) > 0 {
				fr.regs[k] = e.mergeMany(gs, vs)
			}
		}
	}
	// phis (simultaneous)
	var phis []*ssa.Phi
	for _, ins := range b.Instrs {
		if p, ok := ins.(*ssa.Phi); ok {
			phis = append(phis, p)
		} else {
			break
		}
	}
	if len(phis) > 0 {
		newVals := make([]Value, len(phis))
		for pi, p := range phis {
			var gs []*Term
			var vs []Value
			for i := range as {
				a := &as[i]
				var v Value
				switch {
				case a.PredIdx == -2:
					v = fr.regs[p]
				case a.PredIdx >= 0:
					v = e.arrOperand(fr, a, p.Edges[a.PredIdx])
				default:
					panic("phi in entry block")
				}
				gs = append(gs, a.G)
				vs = append(vs, v)
			}
			newVals[pi] = e.mergeMany(gs, vs)
		}
		for pi, p := range phis {
			fr.regs[p] = newVals[pi]
		}
	}
	e.G = G
	for _, ins := range b.Instrs[len(phis):] {
		if e.G.IsFalse() {
			return
		}
		e.nInstrs++
		if p := ins.Pos(); p.IsValid() {
			e.curPos = p
		}
		switch ins.(type) {
		case *ssa.If, *ssa.Jump:
			if fr.endG == nil {
				fr.endG = map[*ssa.BasicBlock]endGuard{}
			}
			fr.endG[b] = endGuard{e.G, e.kills, fr.iterStamp}
		}
		switch x := ins.(type) {
		case *ssa.If:
			c := e.operand(fr, x.Cond).(*Term)
			cur := e.G
			// slot-wise map range: the false edge of "if ok" means "this slot is absent: continue"
			if lp := fr.cfg.LoopOf[b]; lp != nil && lp.Header == b && lp != fr.cfg.Root {
				if _, isSkip := fr.skipG[b]; c.IsConst() || isSkip {
					if fr.concHdr == nil {
						fr.concHdr = map[*Loop]bool{}
					}
					fr.concHdr[lp] = true
				}
			}
			if _, ok := fr.skipG[b]; ok && !(fr.cfg.LoopOf[b] != nil && fr.cfg.LoopOf[b].Header == b && fr.cfg.LoopOf[b] != fr.cfg.Root) {
				// a map range whose body never loops back (it always returns/breaks): no natural loop exists, so the
				// slots are walked right here; each present slot becomes one arrival at the body carrying its own
				// (key, value) tuple as a register snapshot
				var nx *ssa.Next
				for _, in := range b.Instrs {
					if n, ok := in.(*ssa.Next); ok {
						nx = n
					}
				}
				for {
					tup := fr.regs[nx].(*TupleV)
					pres := tup.E[0].(*Term)
					if _, more := fr.skipG[b]; !more {
						// exhausted
						if !cur.IsFalse() {
							route(b.Succs[1], e.mkArrival(fr, cur, b, b.Succs[1], 1))
						}
						break
					}
					delete(fr.skipG, b)
					gT := tb.And(cur, pres)
					if !gT.IsFalse() {
						a := e.mkArrival(fr, gT, b, b.Succs[0], 0)
						if a.Snap == nil {
							a.Snap = map[ssa.Value]Value{}
						}
						a.Snap[nx] = tup
						for _, in := range b.Instrs {
							if ex, ok := in.(*ssa.Extract); ok && ex.Tuple == nx {
								a.Snap[ex] = tup.E[ex.Index]
							}
						}
						route(b.Succs[0], a)
					}
					cur = tb.And(cur, tb.Not(pres))
					if cur.IsFalse() {
						break
					}
					e.G = cur
					fr.regs[nx] = e.next(fr, nx)
				}
				return
			}
			if skip, ok := fr.skipG[b]; ok {
				delete(fr.skipG, b)
				gT := tb.And(cur, c)
				if !gT.IsFalse() {
					route(b.Succs[0], e.mkArrival(fr, gT, b, b.Succs[0], 0))
				}
				gS := tb.And(cur, skip)
				if !gS.IsFalse() {
					route(b, Arrival{G: gS, Pred: b, PredIdx: -2})
				}
				gF := tb.And(cur, tb.Not(c), tb.Not(skip))
				if !gF.IsFalse() {
					route(b.Succs[1], e.mkArrival(fr, gF, b, b.Succs[1], 1))
				}
				return
			}
			if e.threads != nil && !c.IsConst() {
				// thread mode: nothing is merged; the branch side is a decision of the exploration
				if e.threads.impl.branch(c) {
					route(b.Succs[0], e.mkArrival(fr, cur, b, b.Succs[0], 0))
				} else {
					route(b.Succs[1], e.mkArrival(fr, cur, b, b.Succs[1], 1))
				}
				return
			}
			gT := tb.And(cur, c)
			gF := tb.And(cur, tb.Not(c))
			if !c.IsConst() {
				for k := 0; k < 2; k++ {
					for _, lx := range fr.cfg.loopsExited(b, b.Succs[k]) {
						if fr.symExit == nil {
							fr.symExit = map[*Loop]bool{}
						}
						fr.symExit[lx] = true
					}
				}
			}
			if !gT.IsFalse() {
				route(b.Succs[0], e.mkArrival(fr, gT, b, b.Succs[0], 0))
			}
			if !gF.IsFalse() {
				route(b.Succs[1], e.mkArrival(fr, gF, b, b.Succs[1], 1))
			}
			return
		case *ssa.Jump:
			route(b.Succs[0], e.mkArrival(fr, e.G, b, b.Succs[0], 0))
			return
		case *ssa.Return:
			var v Value
			switch len(x.Results) {
			case 0:
			case 1:
				v = e.operand(fr, x.Results[0])
			default:
				el := make([]Value, len(x.Results))
				for i, r := range x.Results {
					el[i] = e.operand(fr, r)
				}
				v = &TupleV{el}
			}
			fr.rets = append(fr.rets, retArrival{e.G, v})
			return
		case *ssa.Panic:
			e.explicitPanic(fr, x)
			return
		default:
			e.evalInstr(fr, ins)
		}
	}
}

// mkArrival builds the arrival for edge b -> to (the k-th successor of b).
func (e *Engine) mkArrival(fr *Frame, g *Term, b, to *ssa.BasicBlock, succIdx int) Arrival {
	// index in to.Preds: the n-th occurrence of b in to.Preds where n = number of earlier succs equal to `to`
	n := 0
	for i := 0; i < succIdx; i++ {
		if b.Succs[i] == to {
			n++
		}
	}
	idx := -1
	for i, p := range to.Preds {
		if p == b {
			if n == 0 {
				idx = i
				break
			}
			n--
		}
	}
	a := Arrival{G: g, Pred: b, PredIdx: idx}
	for _, l := range fr.cfg.loopsExited(b, to) {
		for _, v := range l.LiveOut {
			if x, ok := fr.regs[v]; ok {
				if a.Snap == nil {
					a.Snap = map[ssa.Value]Value{}
				}
				if _, dup := a.Snap[v]; !dup {
					a.Snap[v] = x
				}
			}
		}
	}
	return a
}

func (e *Engine) explicitPanic(fr *Frame, x *ssa.Panic) {
	v := e.operand(fr, x.X)
	label := "explicit panic"
	if iv, ok := v.(*IfaceV); ok {
		for _, a := range iv.Alts {
			if s, ok := a.V.(*StrV); ok && len(s.Alts) == 1 && s.Alts[0].Sym == nil {
				label = "panic: " + s.Alts[0].S
			} else if a.T != nil {
				label = "panic: " + e.errorText(a)
			}
		}
	}
	if c := e.catcher(true); c != nil {
		c.PanicG = e.tb.Or(c.PanicG, e.G)
	} else {
		e.addObl("panic", label, x.Pos(), e.tb.True)
	}
	e.kills++
	e.G = e.tb.False
}

func (e *Engine) errorText(a IfaceAlt) string {
	if p, ok := a.V.(*Ptr); ok && len(p.Alts) == 1 && p.Alts[0].Obj != nil {
		if t, ok := e.errTexts[p.Alts[0].Obj]; ok {
			return t
		}
		if sv, ok := p.Alts[0].Obj.V.(*StructV); ok && len(sv.F) > 0 {
			if s, ok := sv.F[0].(*StrV); ok && len(s.Alts) == 1 {
				return s.Alts[0].S
			}
		}
	}
	return a.T.String()
}

// ---------------------------------------------------------------------------------------------
// Operands and constants

func (e *Engine) operand(fr *Frame, v ssa.Value) Value {
	switch x := v.(type) {
	case *ssa.Const:
		return e.constVal(x)
	case *ssa.Global:
		return e.ptrTo(e.globalObj(x))
	case *ssa.Function:
		return &FuncV{[]FuncAlt{{G: e.tb.True, Fn: x}}}
	case *ssa.Builtin:
		return &FuncV{[]FuncAlt{{G: e.tb.True, Builtin: x.Name()}}}
	}
	r, ok := fr.regs[v]
	if !ok {
		panic(e.unsupported("undefined register %s (%s) in %s", v.Name(), v.String(), fr.fn.String()))
	}
	return r
}

func (e *Engine) constVal(c *ssa.Const) Value {
	t := c.Type()
	if c.Value == nil {
		return e.zero(t)
	}
	switch u := t.Underlying().(type) {
	case *types.Basic:
		switch {
		case u.Info()&types.IsBoolean != 0:
			return e.tb.Bool(constant.BoolVal(c.Value))
		case u.Info()&types.IsString != 0:
			return e.str(constant.StringVal(c.Value))
		case u.Info()&types.IsInteger != 0:
			s, _ := sortOfBasic(u)
			if i, ok := constant.Int64Val(constant.ToInt(c.Value)); ok {
				return e.tb.BVConst(uint64(i), s.W)
			}
			if i, ok := constant.Uint64Val(constant.ToInt(c.Value)); ok {
				return e.tb.BVConst(i, s.W)
			}
		case u.Info()&types.IsFloat != 0:
			s, _ := sortOfBasic(u)
			f, _ := constant.Float64Val(c.Value)
			return e.tb.FPConst(f, s.W)
		}
	}
	panic(e.unsupported("constant %v of type %v", c.Value, t))
}

func (e *Engine) globalObj(g *ssa.Global) *Object {
	if o, ok := e.globals[g]; ok {
		return o
	}
	et := g.Type().(*types.Pointer).Elem()
	o := e.newObj(OCell, et, "global:"+g.String())
	o.V = e.zero(et)
	e.globals[g] = o
	if g.Pkg != nil && !strings.HasPrefix(g.Pkg.Pkg.Path(), e.repoPkgPrefix) {
		// dependency package globals are not initialised by running their init(): give well-known kinds a value
		e.initExternGlobal(g, o)
	}
	return o
}

func (e *Engine) initExternGlobal(g *ssa.Global, o *Object) {
	et := o.Typ
	if _, ok := et.Underlying().(*types.Interface); ok {
		// opaque sentinel (e.g. context.Canceled, io.EOF)
		o.V = e.opaqueIface(g.String())
		return
	}
	e.note("extern global read as zero: " + g.String())
}

// opaqueIface creates a unique non-nil interface value of a synthetic dynamic type.
func (e *Engine) opaqueIface(tag string) *IfaceV {
	mt := e.marker("opaque")
	obj := e.newObj(OOpaque, mt, tag)
	obj.Tag = tag
	e.errTexts[obj] = tag
	return &IfaceV{[]IfaceAlt{{G: e.tb.True, T: mt, V: e.ptrTo(obj)}}}
}

func (e *Engine) marker(name string) *types.Named {
	if m, ok := e.markers[name]; ok {
		return m
	}
	m := types.NewNamed(types.NewTypeName(token.NoPos, nil, "symgo."+name, nil), types.NewStruct(nil, nil), nil)
	e.markers[name] = m
	return m
}

// ---------------------------------------------------------------------------------------------
// Memory access

func (e *Engine) selectElem(els []Value, idx *Term) Value {
	if idx.IsConst() {
		i := int(idx.C)
		if i < 0 || i >= len(els) {
			// out of range on this path: bounds obligation was emitted by the caller
			if len(els) == 0 {
				return nil
			}
			return els[0]
		}
		return els[i]
	}
	if len(els) == 0 {
		return nil
	}
	r := els[len(els)-1]
	for k := len(els) - 2; k >= 0; k-- {
		r = e.iteVal(e.tb.Eq(idx, e.tb.Int(int64(k))), els[k], r)
	}
	return r
}

func (e *Engine) readPathVal(cur Value, path []PathEl) Value {
	for _, p := range path {
		switch c := cur.(type) {
		case *StructV:
			cur = c.F[p.Idx]
		case *ArrayV:
			if p.Sym != nil {
				cur = e.selectElem(c.E, p.Sym)
			} else {
				if p.Idx >= len(c.E) {
					return c.E[0]
				}
				cur = c.E[p.Idx]
			}
		default:
			panic(e.unsupported("readPath through %T", cur))
		}
	}
	return cur
}

func (e *Engine) readObj(o *Object, path []PathEl) Value {
	switch o.Kind {
	case OCell, OOpaque, OCtx:
		return e.readPathVal(o.V, path)
	case OArr:
		if o.ViewOf != nil {
			return e.readObj(o.ViewOf, append(append([]PathEl(nil), o.ViewPath...), path...))
		}
		if len(path) == 0 {
			return &ArrayV{o.E}
		}
		var cur Value
		if path[0].Sym != nil {
			if len(o.E) == 0 {
				cur = e.zero(o.Typ)
			} else {
				cur = e.selectElem(o.E, path[0].Sym)
			}
		} else {
			if path[0].Idx >= len(o.E) {
				if len(o.E) == 0 {
					cur = e.zero(o.Typ)
				} else {
					cur = o.E[0]
				}
			} else {
				cur = o.E[path[0].Idx]
			}
		}
		return e.readPathVal(cur, path[1:])
	}
	panic(e.unsupported("read of object kind %d", o.Kind))
}

func (e *Engine) writePathVal(cur Value, path []PathEl, v Value, g *Term) Value {
	if len(path) == 0 {
		return e.iteVal(g, v, cur)
	}
	p := path[0]
	switch c := cur.(type) {
	case *StructV:
		nf := make([]Value, len(c.F))
		copy(nf, c.F)
		nf[p.Idx] = e.writePathVal(c.F[p.Idx], path[1:], v, g)
		return &StructV{nf}
	case *ArrayV:
		ne := make([]Value, len(c.E))
		copy(ne, c.E)
		if p.Sym != nil {
			for k := range ne {
				gk := e.tb.And(g, e.tb.Eq(p.Sym, e.tb.Int(int64(k))))
				if !gk.IsFalse() {
					ne[k] = e.writePathVal(c.E[k], path[1:], v, gk)
				}
			}
		} else if p.Idx < len(ne) {
			ne[p.Idx] = e.writePathVal(c.E[p.Idx], path[1:], v, g)
		}
		return &ArrayV{ne}
	}
	panic(e.unsupported("writePath through %T", cur))
}

func (e *Engine) writeObj(o *Object, path []PathEl, v Value, g *Term) {
	if g.IsFalse() {
		return
	}
	switch o.Kind {
	case OCell, OOpaque, OCtx:
		o.V = e.writePathVal(o.V, path, v, g)
		return
	case OArr:
		if o.ViewOf != nil {
			e.writeObj(o.ViewOf, append(append([]PathEl(nil), o.ViewPath...), path...), v, g)
			return
		}
		if len(path) == 0 {
			av := v.(*ArrayV)
			for k := range o.E {
				o.E[k] = e.iteVal(g, av.E[k], o.E[k])
			}
			return
		}
		p := path[0]
		if p.Sym != nil {
			for k := range o.E {
				gk := e.tb.And(g, e.tb.Eq(p.Sym, e.tb.Int(int64(k))))
				if !gk.IsFalse() {
					o.E[k] = e.writePathVal(o.E[k], path[1:], v, gk)
				}
			}
		} else if p.Idx < len(o.E) {
			o.E[p.Idx] = e.writePathVal(o.E[p.Idx], path[1:], v, g)
		}
		return
	}
	panic(e.unsupported("write of object kind %d", o.Kind))
}

// load dereferences p under the current guard (nil alternatives raise a panic obligation).
func (e *Engine) load(p *Ptr, pos token.Pos) Value {
	tb := e.tb
	nilG := tb.False
	for _, a := range p.Alts {
		if a.Obj == nil {
			nilG = tb.Or(nilG, a.G)
		}
	}
	e.runtimePanic("nil pointer dereference", pos, nilG)
	var gs []*Term
	var vs []Value
	for _, a := range p.Alts {
		if a.Obj == nil {
			continue
		}
		if tb.And(e.G, a.G).IsFalse() {
			continue
		}
		gs = append(gs, a.G)
		vs = append(vs, e.readObj(a.Obj, a.Path))
	}
	if len(vs) == 0 {
		return nil
	}
	return e.mergeMany(gs, vs)
}

func (e *Engine) store(p *Ptr, v Value, pos token.Pos) {
	tb := e.tb
	nilG := tb.False
	for _, a := range p.Alts {
		if a.Obj == nil {
			nilG = tb.Or(nilG, a.G)
		}
	}
	e.runtimePanic("nil pointer dereference", pos, nilG)
	for _, a := range p.Alts {
		if a.Obj == nil {
			continue
		}
		e.writeObj(a.Obj, a.Path, v, tb.And(e.G, a.G))
	}
}

// ---------------------------------------------------------------------------------------------
// Instructions

func (e *Engine) evalInstr(fr *Frame, ins ssa.Instruction) {
	tb := e.tb
	switch x := ins.(type) {
	case *ssa.DebugRef:
	case *ssa.Alloc:
		et := x.Type().(*types.Pointer).Elem()
		o := e.newObj(OCell, et, e.posStr(x.Pos()))
		o.V = e.zero(et)
		fr.regs[x] = e.ptrTo(o)
	case *ssa.Store:
		e.store(e.operand(fr, x.Addr).(*Ptr), e.operand(fr, x.Val), x.Pos())
	case *ssa.UnOp:
		fr.regs[x] = e.unop(fr, x)
	case *ssa.BinOp:
		fr.regs[x] = e.binop(x.Op, e.operand(fr, x.X), e.operand(fr, x.Y), x.X.Type(), x.Pos())
	case *ssa.Call:
		fr.regs[x] = e.evalCall(fr, &x.Call, x.Pos())
	case *ssa.ChangeInterface:
		fr.regs[x] = e.operand(fr, x.X)
	case *ssa.ChangeType:
		fr.regs[x] = e.operand(fr, x.X)
	case *ssa.Convert:
		fr.regs[x] = e.convert(e.operand(fr, x.X), x.X.Type(), x.Type(), x.Pos())
	case *ssa.MultiConvert:
		fr.regs[x] = e.convert(e.operand(fr, x.X), x.X.Type(), x.Type(), x.Pos())
	case *ssa.Extract:
		fr.regs[x] = e.operand(fr, x.Tuple).(*TupleV).E[x.Index]
	case *ssa.Field:
		fr.regs[x] = e.operand(fr, x.X).(*StructV).F[x.Field]
	case *ssa.FieldAddr:
		p := e.operand(fr, x.X).(*Ptr)
		fr.regs[x] = e.extendPtr(p, PathEl{Idx: x.Field}, x.Pos())
	case *ssa.Index:
		fr.regs[x] = e.index(fr, x)
	case *ssa.IndexAddr:
		fr.regs[x] = e.indexAddr(fr, x)
	case *ssa.Lookup:
		fr.regs[x] = e.lookup(fr, x)
	case *ssa.MakeInterface:
		fr.regs[x] = &IfaceV{[]IfaceAlt{{G: tb.True, T: x.X.Type(), V: e.operand(fr, x.X)}}}
	case *ssa.MakeClosure:
		fn := x.Fn.(*ssa.Function)
		bind := make([]Value, len(x.Bindings))
		for i, b := range x.Bindings {
			bind[i] = e.operand(fr, b)
		}
		fr.regs[x] = &FuncV{[]FuncAlt{{G: tb.True, Fn: fn, Bind: bind}}}
	case *ssa.MakeMap:
		o := e.newObj(OMap, x.Type(), e.posStr(x.Pos()))
		fr.regs[x] = &MapV{[]RefAlt{{G: tb.True, Obj: o}}}
	case *ssa.MakeSlice:
		fr.regs[x] = e.makeSlice(fr, x)
	case *ssa.MakeChan:
		sz := e.operand(fr, x.Size).(*Term)
		n := 0
		if sz.IsConst() {
			n = int(sz.C)
		} else if u := tb.UB(e.toInt64(sz, x.Size.Type())); u <= 64 {
			// symbolic buffer size with a small upper bound: the bound is used as the capacity (an
			// over-approximation that can only make sends block less; noted)
			n = int(u)
			e.note("make(chan) with symbolic size: capacity over-approximated by its upper bound")
		} else {
			panic(e.unsupported("make(chan) with symbolic size"))
		}
		fr.regs[x] = e.newChan(x.Type(), n, e.posStr(x.Pos()))
	case *ssa.MapUpdate:
		e.mapUpdate(e.operand(fr, x.Map).(*MapV), e.operand(fr, x.Key), e.operand(fr, x.Value), x.Pos())
	case *ssa.Range:
		fr.regs[x] = e.makeRange(fr, x)
	case *ssa.Next:
		fr.regs[x] = e.next(fr, x)
	case *ssa.Slice:
		fr.regs[x] = e.sliceOp(fr, x)
	case *ssa.SliceToArrayPointer:
		fr.regs[x] = e.sliceToArrayPtr(fr, x)
	case *ssa.TypeAssert:
		fr.regs[x] = e.typeAssert(fr, x)
	case *ssa.Defer:
		e.deferCall(fr, x)
	case *ssa.RunDefers:
		e.runDefers(fr)
	case *ssa.Go:
		e.goStmt(fr, x)
	case *ssa.Send:
		e.chanSend(e.operand(fr, x.Chan).(*ChanV), e.operand(fr, x.X), x.Pos())
	case *ssa.Select:
		fr.regs[x] = e.selectStmt(fr, x)
	default:
		panic(e.unsupported("instruction %T: %s", ins, ins.String()))
	}
}

func (e *Engine) extendPtr(p *Ptr, el PathEl, pos token.Pos) *Ptr {
	tb := e.tb
	nilG := tb.False
	out := make([]PtrAlt, 0, len(p.Alts))
	for _, a := range p.Alts {
		if a.Obj == nil {
			nilG = tb.Or(nilG, a.G)
			continue
		}
		np := make([]PathEl, len(a.Path)+1)
		copy(np, a.Path)
		np[len(a.Path)] = el
		out = append(out, PtrAlt{a.G, a.Obj, np})
	}
	e.runtimePanic("nil pointer dereference", pos, nilG)
	if len(out) == 0 {
		return e.nilPtr()
	}
	return &Ptr{out}
}

func (e *Engine) unop(fr *Frame, x *ssa.UnOp) Value {
	tb := e.tb
	v := e.operand(fr, x.X)
	switch x.Op {
	case token.MUL:
		r := e.load(v.(*Ptr), x.Pos())
		if r == nil {
			// no alternative of the pointer is feasible under the current guard: the path is dead
			e.G = tb.False
			return e.zero(x.Type())
		}
		return r
	case token.NOT:
		return tb.Not(v.(*Term))
	case token.SUB:
		t := v.(*Term)
		if t.S.K == SFP {
			return tb.FPNeg(t)
		}
		return tb.BVNeg(t)
	case token.XOR:
		return tb.BVNot(v.(*Term))
	case token.ARROW:
		val, ok := e.chanRecv(v.(*ChanV), x.X.Type().Underlying().(*types.Chan).Elem(), x.Pos())
		if x.CommaOk {
			return &TupleV{[]Value{val, ok}}
		}
		return val
	}
	panic(e.unsupported("unop %v", x.Op))
}

func (e *Engine) binop(op token.Token, a, b Value, xt types.Type, pos token.Pos) Value {
	tb := e.tb
	switch op {
	case token.EQL:
		return e.valEqTyped(a, b, xt)
	case token.NEQ:
		return tb.Not(e.valEqTyped(a, b, xt))
	}
	switch x := a.(type) {
	case *Term:
		y := b.(*Term)
		if x.S.K == SFP {
			switch op {
			case token.ADD:
				return tb.FPOp(OpFAdd, x, y)
			case token.SUB:
				return tb.FPOp(OpFSub, x, y)
			case token.MUL:
				return tb.FPOp(OpFMul, x, y)
			case token.QUO:
				return tb.FPOp(OpFDiv, x, y)
			case token.LSS:
				return tb.FPCmp(OpFLT, x, y)
			case token.LEQ:
				return tb.FPCmp(OpFLE, x, y)
			case token.GTR:
				return tb.FPCmp(OpFLT, y, x)
			case token.GEQ:
				return tb.FPCmp(OpFLE, y, x)
			}
			panic(e.unsupported("fp binop %v", op))
		}
		if x.S.K == SBool {
			switch op {
			case token.AND, token.LAND:
				return tb.And(x, y)
			case token.OR, token.LOR:
				return tb.Or(x, y)
			}
			panic(e.unsupported("bool binop %v", op))
		}
		signed := isSigned(xt)
		switch op {
		case token.ADD:
			return tb.BVOp(OpAdd, x, y)
		case token.SUB:
			return tb.BVOp(OpSub, x, y)
		case token.MUL:
			return tb.BVOp(OpMul, x, y)
		case token.QUO, token.REM:
			e.runtimePanic("integer divide by zero", pos, tb.Eq(y, tb.BVConst(0, y.S.W)))
			if signed {
				if op == token.QUO {
					return tb.BVOp(OpSDiv, x, y)
				}
				return tb.BVOp(OpSRem, x, y)
			}
			if op == token.QUO {
				return tb.BVOp(OpUDiv, x, y)
			}
			return tb.BVOp(OpURem, x, y)
		case token.AND:
			return tb.BVOp(OpBAnd, x, y)
		case token.OR:
			return tb.BVOp(OpBOr, x, y)
		case token.XOR:
			return tb.BVOp(OpBXor, x, y)
		case token.AND_NOT:
			return tb.BVOp(OpBAnd, x, tb.BVNot(y))
		case token.SHL, token.SHR:
			// shift count may have a different width; Go: count >= width yields 0 (or sign fill)
			w := x.S.W
			var cnt *Term
			if y.S.W < w {
				cnt = tb.ZExt(y, w)
			} else if y.S.W > w {
				// large counts saturate
				big := tb.Cmp(OpULE, tb.BVConst(uint64(w), y.S.W), y)
				cnt = tb.Ite(big, tb.BVConst(uint64(w), w), tb.Extract(y, w-1, 0))
			} else {
				cnt = y
			}
			if op == token.SHL {
				return tb.BVOp(OpShl, x, cnt)
			}
			if signed {
				return tb.BVOp(OpAShr, x, cnt)
			}
			return tb.BVOp(OpLShr, x, cnt)
		case token.LSS, token.LEQ, token.GTR, token.GEQ:
			lt, le := OpULT, OpULE
			if signed {
				lt, le = OpSLT, OpSLE
			}
			switch op {
			case token.LSS:
				return tb.Cmp(lt, x, y)
			case token.LEQ:
				return tb.Cmp(le, x, y)
			case token.GTR:
				return tb.Cmp(lt, y, x)
			default:
				return tb.Cmp(le, y, x)
			}
		}
	case *StrV:
		y := b.(*StrV)
		switch op {
		case token.ADD:
			return e.strConcat(x, y)
		case token.LSS, token.LEQ, token.GTR, token.GEQ:
			r := tb.False
			for _, p := range x.Alts {
				for _, q := range y.Alts {
					if p.Sym != nil || q.Sym != nil {
						panic(e.unsupported("ordering of symbolic strings"))
					}
					var c bool
					switch op {
					case token.LSS:
						c = p.S < q.S
					case token.LEQ:
						c = p.S <= q.S
					case token.GTR:
						c = p.S > q.S
					default:
						c = p.S >= q.S
					}
					if c {
						r = tb.Or(r, tb.And(p.G, q.G))
					}
				}
			}
			return r
		}
	}
	panic(e.unsupported("binop %v on %T", op, a))
}

func (e *Engine) valEqTyped(a, b Value, t types.Type) *Term {
	return e.valEq(a, b)
}

func (e *Engine) strConcat(x, y *StrV) *StrV {
	tb := e.tb
	var out []StrAlt
	for _, p := range x.Alts {
		for _, q := range y.Alts {
			g := tb.And(p.G, q.G)
			if g.IsFalse() {
				continue
			}
			if p.Sym == nil && q.Sym == nil {
				out = append(out, StrAlt{G: g, S: p.S + q.S})
			} else {
				var s []*Term
				for i := 0; i < e.strAltLen(p); i++ {
					s = append(s, e.strByte(p, i))
				}
				for i := 0; i < e.strAltLen(q); i++ {
					s = append(s, e.strByte(q, i))
				}
				if s == nil {
					s = []*Term{}
				}
				out = append(out, StrAlt{G: g, Sym: s})
			}
		}
	}
	if len(out) > 256 {
		panic(e.unsupported("string concatenation with %d alternatives", len(out)))
	}
	return &StrV{out}
}

func (e *Engine) strAltLen(a StrAlt) int {
	if a.Sym != nil {
		return len(a.Sym)
	}
	return len(a.S)
}

func (e *Engine) strLen(s *StrV) *Term {
	r := e.tb.Int(0)
	for i := len(s.Alts) - 1; i >= 0; i-- {
		r = e.tb.Ite(s.Alts[i].G, e.tb.Int(int64(e.strAltLen(s.Alts[i]))), r)
	}
	if len(s.Alts) == 1 {
		return e.tb.Int(int64(e.strAltLen(s.Alts[0])))
	}
	return r
}

// ---------------------------------------------------------------------------------------------
// Conversions

func (e *Engine) convert(v Value, from, to types.Type, pos token.Pos) Value {
	tb := e.tb
	fu, tu := from.Underlying(), to.Underlying()
	if isTimeType(from) || isTimeType(to) {
		return v
	}
	switch t := tu.(type) {
	case *types.Basic:
		if t.Info()&types.IsString != 0 {
			switch f := fu.(type) {
			case *types.Basic:
				if f.Info()&types.IsString != 0 {
					return v
				}
				if f.Info()&types.IsInteger != 0 {
					x := v.(*Term)
					if x.IsConst() {
						return e.str(string(rune(x.SignedVal())))
					}
					panic(e.unsupported("string(symbolic int)"))
				}
			case *types.Slice:
				return e.bytesToString(v.(*SliceV), pos)
			}
			panic(e.unsupported("convert %v to string", from))
		}
		x, ok := v.(*Term)
		if !ok {
			if t.Kind() == types.UnsafePointer {
				return v
			}
			panic(e.unsupported("convert %T (%v) to %v", v, from, to))
		}
		ts, ok := sortOfBasic(t)
		if !ok {
			panic(e.unsupported("convert to %v", to))
		}
		switch {
		case x.S.K == SBV && ts.K == SBV:
			if ts.W <= x.S.W {
				return tb.Extract(x, ts.W-1, 0)
			}
			if isSigned(from) {
				return tb.SExt(x, ts.W)
			}
			return tb.ZExt(x, ts.W)
		case x.S.K == SBV && ts.K == SFP:
			return tb.IntToFP(x, isSigned(from), ts.W)
		case x.S.K == SFP && ts.K == SBV:
			if ts.W < 64 {
				return tb.Extract(tb.FPToInt(x, isSigned(to), 64), ts.W-1, 0)
			}
			return tb.FPToInt(x, isSigned(to), ts.W)
		case x.S.K == SFP && ts.K == SFP:
			return tb.FPToFP(x, ts.W)
		case x.S.K == SBool && ts.K == SBool:
			return x
		}
	case *types.Slice:
		if fb, ok := fu.(*types.Basic); ok && fb.Info()&types.IsString != 0 {
			if eb, ok := t.Elem().Underlying().(*types.Basic); ok && eb.Kind() == types.Uint8 {
				return e.stringToBytes(v.(*StrV), t)
			}
			panic(e.unsupported("string to %v", to))
		}
		return v
	case *types.Pointer, *types.Signature, *types.Map, *types.Chan, *types.Struct, *types.Array, *types.Interface:
		return v
	}
	panic(e.unsupported("convert %v -> %v", from, to))
}

func (e *Engine) stringToBytes(s *StrV, st *types.Slice) *SliceV {
	tb := e.tb
	var out []SliceAlt
	for _, a := range s.Alts {
		n := e.strAltLen(a)
		arr := e.newObj(OArr, st.Elem(), "[]byte(string)")
		arr.E = make([]Value, n)
		for i := 0; i < n; i++ {
			arr.E[i] = e.strByte(a, i)
		}
		out = append(out, SliceAlt{G: a.G, Arr: arr, Off: tb.Int(0), Len: tb.Int(int64(n)), Cap: tb.Int(int64(n))})
	}
	return &SliceV{out}
}

func (e *Engine) bytesToString(s *SliceV, pos token.Pos) *StrV {
	tb := e.tb
	var out []StrAlt
	for _, a := range s.Alts {
		if a.Arr == nil {
			out = append(out, StrAlt{G: a.G, S: ""})
			continue
		}
		// symbolic length and/or offset: one alternative per feasible (offset, length) pair
		if !a.Len.IsConst() || !a.Off.IsConst() {
			cells := e.arrCells(a.Arr)
			offLo, offHi := 0, len(cells)
			if a.Off.IsConst() {
				offLo, offHi = int(a.Off.C), int(a.Off.C)
			} else if u := tb.UB(a.Off); u < uint64(offHi) {
				offHi = int(u)
			}
			maxN := e.lenUB(a)
			for off := offLo; off <= offHi; off++ {
				gOff := tb.Eq(a.Off, tb.Int(int64(off)))
				if tb.And(e.G, a.G, gOff).IsFalse() {
					continue
				}
				for n := 0; n+off <= len(cells) && n <= maxN; n++ {
					g := tb.And(a.G, gOff, tb.Eq(a.Len, tb.Int(int64(n))))
					if tb.And(e.G, g).IsFalse() {
						continue
					}
					out = append(out, e.mkStrAlt(g, cells[off:off+n]))
				}
			}
			continue
		}
		off, n := int(a.Off.C), int(a.Len.C)
		out = append(out, e.mkStrAlt(a.G, e.arrCells(a.Arr)[off:off+n]))
	}
	// coalesce equal concrete strings
	var res []StrAlt
	for _, a := range out {
		found := false
		if a.Sym == nil {
			for i := range res {
				if res[i].Sym == nil && res[i].S == a.S {
					res[i].G = tb.Or(res[i].G, a.G)
					found = true
					break
				}
			}
		}
		if !found {
			res = append(res, a)
		}
	}
	return &StrV{res}
}

func (e *Engine) mkStrAlt(g *Term, cells []Value) StrAlt {
	allConst := true
	for _, c := range cells {
		if !c.(*Term).IsConst() {
			allConst = false
			break
		}
	}
	if allConst {
		b := make([]byte, len(cells))
		for i, c := range cells {
			b[i] = byte(c.(*Term).C)
		}
		return StrAlt{G: g, S: string(b)}
	}
	sym := make([]*Term, len(cells))
	for i, c := range cells {
		sym[i] = c.(*Term)
	}
	return StrAlt{G: g, Sym: sym}
}

// ---------------------------------------------------------------------------------------------
// Slices, arrays, strings

func (e *Engine) makeSlice(fr *Frame, x *ssa.MakeSlice) Value {
	tb := e.tb
	ln := e.operand(fr, x.Len).(*Term)
	cp := e.operand(fr, x.Cap).(*Term)
	ln = e.toInt64(ln, x.Len.Type())
	cp = e.toInt64(cp, x.Cap.Type())
	et := x.Type().Underlying().(*types.Slice).Elem()
	var n int
	if cp.IsConst() {
		if cp.SignedVal() < 0 || cp.SignedVal() > 1<<20 {
			e.runtimePanic("makeslice: cap out of range", x.Pos(), tb.True)
			return e.zero(x.Type())
		}
		n = int(cp.C)
	} else {
		bad := tb.Or(tb.Cmp(OpSLT, cp, tb.Int(0)))
		e.runtimePanic("makeslice: cap out of range", x.Pos(), bad)
		if u := tb.UB(cp); u <= 64 {
			// symbolic capacity with a small syntactic upper bound: allocate that many cells and use the
			// bound as the capacity (an over-approximation of cap(); lengths and contents are exact)
			n = int(u)
			e.note("make with symbolic capacity: capacity over-approximated by its upper bound")
			if !ln.IsConst() {
				e.runtimePanic("makeslice: len out of range", x.Pos(), tb.Or(tb.Cmp(OpSLT, ln, tb.Int(0)), tb.Cmp(OpSLT, cp, ln)))
			}
			cp = tb.Int(int64(n))
		} else {
			n = e.opts.MaxAlloc
			e.addObl("bound", fmt.Sprintf("make([]T, n) with symbolic n exceeds engine bound %d", n), x.Pos(), tb.Cmp(OpSLT, tb.Int(int64(n)), cp))
			e.G = tb.And(e.G, tb.Cmp(OpSLE, cp, tb.Int(int64(n))))
		}
	}
	if !ln.IsConst() {
		e.runtimePanic("makeslice: len out of range", x.Pos(), tb.Or(tb.Cmp(OpSLT, ln, tb.Int(0)), tb.Cmp(OpSLT, cp, ln)))
	}
	arr := e.newObj(OArr, et, e.posStr(x.Pos()))
	arr.E = make([]Value, n)
	if n > 0 {
		z := e.zero(et)
		for i := range arr.E {
			arr.E[i] = z
		}
	}
	return &SliceV{[]SliceAlt{{G: tb.True, Arr: arr, Off: tb.Int(0), Len: ln, Cap: cp}}}
}

func (e *Engine) toInt64(t *Term, typ types.Type) *Term {
	if t.S.W == 64 {
		return t
	}
	if isSigned(typ) {
		return e.tb.SExt(t, 64)
	}
	return e.tb.ZExt(t, 64)
}

func (e *Engine) indexAddr(fr *Frame, x *ssa.IndexAddr) Value {
	tb := e.tb
	idx := e.toInt64(e.operand(fr, x.Index).(*Term), x.Index.Type())
	base := e.operand(fr, x.X)
	switch b := base.(type) {
	case *SliceV:
		var out []PtrAlt
		bad := tb.False
		for _, a := range b.Alts {
			if a.Arr == nil {
				bad = tb.Or(bad, a.G)
				continue
			}
			bad = tb.Or(bad, tb.And(a.G, tb.Not(tb.Cmp(OpULT, idx, a.Len))))
			cell := tb.BVOp(OpAdd, a.Off, idx)
			el := PathEl{Sym: cell}
			if cell.IsConst() {
				el = PathEl{Idx: int(cell.C)}
			}
			out = append(out, PtrAlt{a.G, a.Arr, []PathEl{el}})
		}
		e.runtimePanic("index out of range", x.Pos(), bad)
		if len(out) == 0 {
			return e.nilPtr()
		}
		return &Ptr{out}
	case *Ptr:
		at := x.X.Type().Underlying().(*types.Pointer).Elem().Underlying().(*types.Array)
		n := at.Len()
		e.runtimePanic("index out of range", x.Pos(), tb.Not(tb.Cmp(OpULT, idx, tb.Int(n))))
		el := PathEl{Sym: idx}
		if idx.IsConst() {
			el = PathEl{Idx: int(idx.C)}
		}
		return e.extendPtr(b, el, x.Pos())
	}
	panic(e.unsupported("IndexAddr on %T", base))
}

func (e *Engine) index(fr *Frame, x *ssa.Index) Value {
	tb := e.tb
	idx := e.toInt64(e.operand(fr, x.Index).(*Term), x.Index.Type())
	base := e.operand(fr, x.X)
	switch b := base.(type) {
	case *ArrayV:
		e.runtimePanic("index out of range", x.Pos(), tb.Not(tb.Cmp(OpULT, idx, tb.Int(int64(len(b.E))))))
		return e.selectElem(b.E, idx)
	case *StrV:
		return e.strIndex(b, idx, x.Pos())
	}
	panic(e.unsupported("Index on %T", base))
}

func (e *Engine) strIndex(s *StrV, idx *Term, pos token.Pos) Value {
	tb := e.tb
	bad := tb.False
	var gs []*Term
	var vs []Value
	for _, a := range s.Alts {
		n := e.strAltLen(a)
		bad = tb.Or(bad, tb.And(a.G, tb.Not(tb.Cmp(OpULT, idx, tb.Int(int64(n))))))
		if n == 0 {
			continue
		}
		els := make([]Value, n)
		for i := range els {
			els[i] = e.strByte(a, i)
		}
		gs = append(gs, a.G)
		vs = append(vs, e.selectElem(els, idx))
	}
	e.runtimePanic("string index out of range", pos, bad)
	if len(vs) == 0 {
		return tb.BVConst(0, 8)
	}
	return e.mergeMany(gs, vs)
}

func (e *Engine) sliceOp(fr *Frame, x *ssa.Slice) Value {
	tb := e.tb
	base := e.operand(fr, x.X)
	get := func(v ssa.Value) *Term {
		if v == nil {
			return nil
		}
		return e.toInt64(e.operand(fr, v).(*Term), v.Type())
	}
	lo, hi, mx := get(x.Low), get(x.High), get(x.Max)
	switch b := base.(type) {
	case *SliceV:
		var out []SliceAlt
		bad := tb.False
		for _, a := range b.Alts {
			l, h, m := lo, hi, mx
			if l == nil {
				l = tb.Int(0)
			}
			if h == nil {
				h = a.Len
			}
			if m == nil {
				m = a.Cap
			}
			if a.Arr == nil {
				// nil slice: only [0:0] is legal
				bad = tb.Or(bad, tb.And(a.G, tb.Not(tb.And(tb.Eq(l, tb.Int(0)), tb.Eq(h, tb.Int(0))))))
				out = append(out, a)
				continue
			}
			ok := tb.And(tb.Cmp(OpULE, l, h), tb.Cmp(OpULE, h, m), tb.Cmp(OpULE, m, a.Cap))
			bad = tb.Or(bad, tb.And(a.G, tb.Not(ok)))
			// bounds valid on live paths (l <= h <= m <= cap there)
			hUB := e.lenUB(a)
			if hi != nil {
				if u := tb.UB(h); u < ubInf {
					hUB = int(u)
				} else {
					hUB = len(a.Arr.E) - int(tb.LB(a.Off))
				}
			}
			nml := hUB - int(tb.LB(l))
			if nml < 0 {
				nml = 0
			}
			nmc := 0
			if u := tb.UB(l); u < ubInf {
				base := e.capLB(a)
				if mx != nil {
					base = int(tb.LB(m))
				}
				nmc = base - int(u)
				if nmc < 0 {
					nmc = 0
				}
			}
			// the length is clamped to its bound (equal on every live path) so that loops over it end syntactically
			out = append(out, SliceAlt{G: a.G, Arr: a.Arr, Off: tb.BVOp(OpAdd, a.Off, l), Len: tb.ClampUB(tb.BVOp(OpSub, h, l), uint64(nml)), Cap: tb.BVOp(OpSub, m, l), ML1: nml + 1, MC1: nmc + 1})
		}
		e.runtimePanic("slice bounds out of range", x.Pos(), bad)
		return &SliceV{out}
	case *StrV:
		var out []StrAlt
		bad := tb.False
		for _, a := range b.Alts {
			n := e.strAltLen(a)
			l, h := lo, hi
			if l == nil {
				l = tb.Int(0)
			}
			if h == nil {
				h = tb.Int(int64(n))
			}
			ok := tb.And(tb.Cmp(OpULE, l, h), tb.Cmp(OpULE, h, tb.Int(int64(n))))
			bad = tb.Or(bad, tb.And(a.G, tb.Not(ok)))
			if l.IsConst() && h.IsConst() {
				li, hi2 := int(l.C), int(h.C)
				if li <= hi2 && hi2 <= n {
					out = append(out, e.subStr(a, a.G, li, hi2))
				}
				continue
			}
			for li := 0; li <= n; li++ {
				for hi2 := li; hi2 <= n; hi2++ {
					g := tb.And(a.G, tb.Eq(l, tb.Int(int64(li))), tb.Eq(h, tb.Int(int64(hi2))))
					if tb.And(e.G, g).IsFalse() {
						continue
					}
					out = append(out, e.subStr(a, g, li, hi2))
				}
			}
		}
		e.runtimePanic("slice bounds out of range", x.Pos(), bad)
		if len(out) == 0 {
			return e.str("")
		}
		return &StrV{out}
	case *Ptr:
		// pointer to array
		at := x.X.Type().Underlying().(*types.Pointer).Elem().Underlying().(*types.Array)
		n := at.Len()
		l, h, m := lo, hi, mx
		if l == nil {
			l = tb.Int(0)
		}
		if h == nil {
			h = tb.Int(n)
		}
		if m == nil {
			m = tb.Int(n)
		}
		ok := tb.And(tb.Cmp(OpULE, l, h), tb.Cmp(OpULE, h, m), tb.Cmp(OpULE, m, tb.Int(n)))
		e.runtimePanic("slice bounds out of range", x.Pos(), tb.Not(ok))
		var out []SliceAlt
		nilG := tb.False
		for _, a := range b.Alts {
			if a.Obj == nil {
				nilG = tb.Or(nilG, a.G)
				continue
			}
			arr := e.arrayObjFor(a, at)
			out = append(out, SliceAlt{G: a.G, Arr: arr, Off: l, Len: tb.BVOp(OpSub, h, l), Cap: tb.BVOp(OpSub, m, l)})
		}
		e.runtimePanic("nil pointer dereference", x.Pos(), nilG)
		if len(out) == 0 {
			return e.zero(x.Type())
		}
		return &SliceV{out}
	}
	panic(e.unsupported("Slice on %T", base))
}

// arrayObjFor returns an OArr object aliasing the array a pointer alternative designates.
// A cell holding an ArrayV is converted in place into an OArr-backed representation the first time
// it is sliced (common pattern: new [N]T (slicelit); slice t[:]).
func (e *Engine) arrayObjFor(a PtrAlt, at *types.Array) *Object {
	if a.Obj.Kind == OArr && len(a.Path) == 0 {
		return a.Obj
	}
	if a.Obj.Kind == OCell && len(a.Path) == 0 {
		av, ok := a.Obj.V.(*ArrayV)
		if ok {
			// convert the cell object itself into an array object (identity preserved)
			a.Obj.Kind = OArr
			a.Obj.E = append([]Value(nil), av.E...)
			a.Obj.V = nil
			a.Obj.Typ = at.Elem()
			return a.Obj
		}
	}
	// an array embedded in a larger object (struct field, array element): a view object that delegates every
	// read and write to the embedding object
	key := fmt.Sprintf("%d:%v", a.Obj.ID, a.Path)
	if v, ok := e.views[key]; ok {
		return v
	}
	v := e.newObj(OArr, at.Elem(), "view:"+a.Obj.Site)
	v.ViewOf, v.ViewPath = a.Obj, append([]PathEl(nil), a.Path...)
	v.E = make([]Value, int(at.Len()))
	if e.views == nil {
		e.views = map[string]*Object{}
	}
	e.views[key] = v
	return v
}

// arrCells returns the current cells of an array object (views read through to the embedding object).
func (e *Engine) arrCells(o *Object) []Value {
	if o.ViewOf == nil {
		return o.E
	}
	return e.readObj(o.ViewOf, o.ViewPath).(*ArrayV).E
}

func (e *Engine) subStr(a StrAlt, g *Term, lo, hi int) StrAlt {
	if a.Sym != nil {
		s := a.Sym[lo:hi]
		if len(s) == 0 {
			return StrAlt{G: g, S: ""}
		}
		return StrAlt{G: g, Sym: s}
	}
	return StrAlt{G: g, S: a.S[lo:hi]}
}

func (e *Engine) sliceToArrayPtr(fr *Frame, x *ssa.SliceToArrayPointer) Value {
	tb := e.tb
	s := e.operand(fr, x.X).(*SliceV)
	at := x.Type().Underlying().(*types.Pointer).Elem().Underlying().(*types.Array)
	n := at.Len()
	bad := tb.False
	var out []PtrAlt
	for _, a := range s.Alts {
		if a.Arr == nil {
			if n == 0 {
				out = append(out, PtrAlt{G: a.G})
			} else {
				bad = tb.Or(bad, a.G)
			}
			continue
		}
		bad = tb.Or(bad, tb.And(a.G, tb.Cmp(OpULT, a.Len, tb.Int(n))))
		if !a.Off.IsConst() || a.Off.C != 0 || int64(len(a.Arr.E)) != n {
			panic(e.unsupported("slice to array pointer with offset/size mismatch"))
		}
		out = append(out, PtrAlt{G: a.G, Obj: a.Arr})
	}
	e.runtimePanic("slice to array pointer: length too short", x.Pos(), bad)
	return &Ptr{out}
}

// sliceLen / sliceCap of a union
func (e *Engine) sliceLen(s *SliceV) *Term {
	if len(s.Alts) == 1 {
		if s.Alts[0].Arr == nil {
			return e.tb.Int(0)
		}
		return e.tb.ClampUB(s.Alts[0].Len, uint64(e.lenUB(s.Alts[0])))
	}
	r := e.tb.Int(0)
	for i := len(s.Alts) - 1; i >= 0; i-- {
		if s.Alts[i].Arr == nil {
			continue
		}
		r = e.tb.Ite(s.Alts[i].G, e.tb.ClampUB(s.Alts[i].Len, uint64(e.lenUB(s.Alts[i]))), r)
	}
	return r
}
func (e *Engine) sliceCap(s *SliceV) *Term {
	if len(s.Alts) == 1 {
		return s.Alts[0].Cap
	}
	r := e.tb.Int(0)
	for i := len(s.Alts) - 1; i >= 0; i-- {
		r = e.tb.Ite(s.Alts[i].G, s.Alts[i].Cap, r)
	}
	return r
}

// sliceElem reads element i (term, relative to the slice) of one alternative.
func (e *Engine) sliceElem(a SliceAlt, i *Term) Value {
	if len(a.Arr.E) == 0 {
		return e.zero(a.Arr.Typ)
	}
	cell := e.tb.BVOp(OpAdd, a.Off, i)
	return e.selectElem(e.arrCells(a.Arr), cell)
}

// lenUB / capLB: bounds of a slice alternative valid on every path where it is live.
func (e *Engine) lenUB(a SliceAlt) int {
	if a.Arr == nil {
		return 0
	}
	best := len(a.Arr.E) - int(e.tb.LB(a.Off))
	if a.ML1 > 0 && a.ML1-1 < best {
		best = a.ML1 - 1
	}
	if u := e.tb.UB(a.Len); u < uint64(best) {
		best = int(u)
	}
	if best < 0 {
		best = 0
	}
	return best
}

func (e *Engine) capLB(a SliceAlt) int {
	if a.Arr == nil {
		return 0
	}
	best := int(e.tb.LB(a.Cap))
	if a.MC1 > 0 && a.MC1-1 > best {
		best = a.MC1 - 1
	}
	return best
}

// maxLen returns a concrete upper bound of a slice alternative's length.
func (e *Engine) maxLen(a SliceAlt) int {
	if a.Arr == nil {
		return 0
	}
	b := e.lenUB(a)
	if a.Len.IsConst() && a.Len.C < uint64(b) {
		return int(a.Len.C)
	}
	return b
}

func (e *Engine) maxLenOld(a SliceAlt) int {
	if a.Arr == nil {
		return 0
	}
	if a.Len.IsConst() {
		return int(a.Len.C)
	}
	if a.Off.IsConst() {
		return len(a.Arr.E) - int(a.Off.C)
	}
	return len(a.Arr.E)
}

func (e *Engine) appendOp(s *SliceV, t Value, st *types.Slice, pos token.Pos) Value {
	tb := e.tb
	// elements to append: list of (guard, value) in order, plus count term
	type el struct {
		g *Term
		v Value
	}
	var els []el
	var cnt *Term
	switch tv := t.(type) {
	case *SliceV:
		if len(tv.Alts) != 1 {
			// merge by evaluating per alternative
			var gs []*Term
			var vs []Value
			for _, ta := range tv.Alts {
				gs = append(gs, ta.G)
				vs = append(vs, e.appendOp(s, &SliceV{[]SliceAlt{{G: tb.True, Arr: ta.Arr, Off: ta.Off, Len: ta.Len, Cap: ta.Cap}}}, st, pos))
			}
			return e.mergeMany(gs, vs)
		}
		ta := tv.Alts[0]
		cnt = ta.Len
		n := e.maxLen(ta)
		for j := 0; j < n; j++ {
			g := tb.Cmp(OpULT, tb.Int(int64(j)), ta.Len)
			if g.IsFalse() {
				break
			}
			els = append(els, el{g, e.sliceElem(ta, tb.Int(int64(j)))})
		}
	case *StrV:
		if len(tv.Alts) != 1 {
			panic(e.unsupported("append(bytes, string-union...)"))
		}
		n := e.strAltLen(tv.Alts[0])
		cnt = tb.Int(int64(n))
		for j := 0; j < n; j++ {
			els = append(els, el{tb.True, e.strByte(tv.Alts[0], j)})
		}
	default:
		panic(e.unsupported("append of %T", t))
	}
	if len(els) == 0 {
		return s
	}
	if os.Getenv("VERIF_DEBUG_TERMS") != "" {
		fmt.Fprintf(os.Stderr, "append at %s: alts=%d terms=%d pool=%d\n", e.posStr(pos), len(s.Alts), e.tb.NumTerms(), len(e.arrPool[st.Elem().String()]))
	}
	var gs []*Term
	var vs []Value
	for _, a := range s.Alts {
		newLen := tb.BVOp(OpAdd, a.Len, cnt)
		var fit *Term
		capN := 0
		if a.Arr == nil {
			fit = tb.False
		} else {
			fit = tb.Cmp(OpULE, newLen, a.Cap)
			capN = len(a.Arr.E)
			if e.lenUB(a)+len(els) <= e.capLB(a) {
				fit = tb.True
			}
		}
		gAlt := tb.And(e.G, a.G)
		var res Value
		// in-place branch
		var inPlace, grown *SliceV
		gFit := tb.And(gAlt, fit)
		if !gFit.IsFalse() {
			for j, x := range els {
				pos := tb.BVOp(OpAdd, tb.BVOp(OpAdd, a.Off, a.Len), tb.Int(int64(j)))
				e.writeObj(a.Arr, []PathEl{e.pathEl(pos)}, x.v, tb.And(gFit, x.g))
			}
			inPlace = &SliceV{[]SliceAlt{{G: tb.True, Arr: a.Arr, Off: a.Off, Len: newLen, Cap: a.Cap, ML1: e.lenUB(a) + len(els) + 1, MC1: e.capLB(a) + 1}}}
		}
		gGrow := tb.And(gAlt, tb.Not(fit))
		if !gGrow.IsFalse() {
			oldN := e.maxLen(a)
			newCap := 2 * capN
			if newCap < oldN+len(els) {
				newCap = oldN + len(els)
			}
			if e.opts.GoCap {
				newCap = goGrowCap(capN, oldN+len(els), int(goSizes.Sizeof(st.Elem())))
			} else if newCap < e.opts.MinCap {
				newCap = e.opts.MinCap
			}
			// arrays allocated on mutually exclusive paths share one object (at most one exists per execution)
			arr, fresh := e.allocArr(st.Elem(), newCap, gGrow, e.posStr(pos)+":append")
			newCap = len(arr.E)
			for i := 0; i < oldN; i++ {
				v := e.sliceElem(a, tb.Int(int64(i)))
				if fresh {
					arr.E[i] = v
				} else {
					arr.E[i] = e.iteVal(gGrow, v, arr.E[i])
				}
			}
			for j, x := range els {
				p := tb.BVOp(OpAdd, a.Len, tb.Int(int64(j)))
				gg := x.g
				if !fresh {
					gg = tb.And(gGrow, x.g)
				}
				e.writeObj(arr, []PathEl{e.pathEl(p)}, x.v, gg)
			}
			grown = &SliceV{[]SliceAlt{{G: tb.True, Arr: arr, Off: tb.Int(0), Len: newLen, Cap: tb.Int(int64(newCap)), ML1: oldN + len(els) + 1, MC1: newCap + 1}}}
		}
		switch {
		case inPlace != nil && grown != nil:
			res = e.iteVal(fit, inPlace, grown)
		case inPlace != nil:
			res = inPlace
		case grown != nil:
			res = grown
		default:
			continue
		}
		gs = append(gs, a.G)
		vs = append(vs, res)
	}
	if len(vs) == 0 {
		return s
	}
	return e.mergeMany(gs, vs)
}

// allocArr returns a backing array of at least n cells that is live under g. An array allocated under
// a guard that is syntactically disjoint from g is reused: the two allocations can never coexist in one
// execution, and all accesses are guarded.
func (e *Engine) allocArr(et types.Type, n int, g *Term, site string) (*Object, bool) {
	key := et.String()
	for _, o := range e.arrPool[key] {
		if len(o.E) >= n && e.tb.And(o.Live, g).IsFalse() {
			o.Live = e.tb.Or(o.Live, g)
			return o, false
		}
	}
	arr := e.newObj(OArr, et, site)
	arr.E = make([]Value, n)
	z := e.zero(et)
	for i := range arr.E {
		arr.E[i] = z
	}
	arr.Live = g
	if e.arrPool == nil {
		e.arrPool = map[string][]*Object{}
	}
	e.arrPool[key] = append(e.arrPool[key], arr)
	return arr, true
}

func (e *Engine) pathEl(t *Term) PathEl {
	if t.IsConst() {
		return PathEl{Idx: int(t.C)}
	}
	return PathEl{Sym: t}
}

func (e *Engine) copyOp(dst *SliceV, src Value, pos token.Pos) Value {
	tb := e.tb
	if len(dst.Alts) != 1 {
		// evaluate per alternative
		total := tb.Int(0)
		G0 := e.G
		for _, a := range dst.Alts {
			e.G = tb.And(G0, a.G)
			if e.G.IsFalse() {
				continue
			}
			n := e.copyOp(&SliceV{[]SliceAlt{{G: tb.True, Arr: a.Arr, Off: a.Off, Len: a.Len, Cap: a.Cap}}}, src, pos).(*Term)
			total = tb.Ite(a.G, n, total)
		}
		e.G = G0
		return total
	}
	d := dst.Alts[0]
	type el struct {
		g *Term
		v Value
	}
	var els []el
	var srcLen *Term
	switch sv := src.(type) {
	case *SliceV:
		if len(sv.Alts) != 1 {
			total := tb.Int(0)
			G0 := e.G
			for _, a := range sv.Alts {
				e.G = tb.And(G0, a.G)
				if e.G.IsFalse() {
					continue
				}
				n := e.copyOp(dst, &SliceV{[]SliceAlt{{G: tb.True, Arr: a.Arr, Off: a.Off, Len: a.Len, Cap: a.Cap}}}, pos).(*Term)
				total = tb.Ite(a.G, n, total)
			}
			e.G = G0
			return total
		}
		sa := sv.Alts[0]
		srcLen = sa.Len
		n := e.maxLen(sa)
		for j := 0; j < n; j++ {
			els = append(els, el{tb.Cmp(OpULT, tb.Int(int64(j)), sa.Len), e.sliceElem(sa, tb.Int(int64(j)))})
		}
	case *StrV:
		if len(sv.Alts) != 1 {
			total := tb.Int(0)
			G0 := e.G
			for _, a := range sv.Alts {
				e.G = tb.And(G0, a.G)
				if e.G.IsFalse() {
					continue
				}
				n := e.copyOp(dst, &StrV{[]StrAlt{{G: tb.True, S: a.S, Sym: a.Sym}}}, pos).(*Term)
				total = tb.Ite(a.G, n, total)
			}
			e.G = G0
			return total
		}
		n := e.strAltLen(sv.Alts[0])
		srcLen = tb.Int(int64(n))
		for j := 0; j < n; j++ {
			els = append(els, el{tb.True, e.strByte(sv.Alts[0], j)})
		}
	}
	n := tb.Ite(tb.Cmp(OpULT, srcLen, d.Len), srcLen, d.Len)
	if d.Arr == nil {
		return tb.Int(0)
	}
	dmax := e.maxLen(d)
	for j, x := range els {
		if j >= dmax {
			break
		}
		g := tb.And(e.G, x.g, tb.Cmp(OpULT, tb.Int(int64(j)), d.Len))
		if g.IsFalse() {
			continue
		}
		p := tb.BVOp(OpAdd, d.Off, tb.Int(int64(j)))
		e.writeObj(d.Arr, []PathEl{e.pathEl(p)}, x.v, g)
	}
	return n
}


// ---- the gc runtime's slice growth (runtime.growslice / nextslicecap / roundupsize, go1.2x, amd64) ------------------
var goSizes = types.SizesFor("gc", "amd64")

var goSizeClasses = []int{8, 16, 24, 32, 48, 64, 80, 96, 112, 128, 144, 160, 176, 192, 208, 224, 240, 256, 288, 320, 352, 384, 416, 448, 480, 512, 576, 640, 704, 768, 896, 1024, 1152, 1280, 1408, 1536, 1792, 2048, 2304, 2688, 3072, 3200, 3456, 4096, 4864, 5376, 6144, 6528, 6784, 6912, 8192, 9472, 9728, 10240, 10880, 12288, 13568, 14336, 16384, 18432, 19072, 20480, 21760, 24576, 27264, 28672, 32768}

func goGrowCap(oldCap, newLen, elemSize int) int {
	newcap := oldCap
	doublecap := newcap + newcap
	if newLen > doublecap {
		newcap = newLen
	} else {
		const threshold = 256
		if oldCap < threshold {
			newcap = doublecap
		} else {
			for newcap < newLen {
				newcap += (newcap + 3*threshold) >> 2
			}
		}
	}
	if elemSize <= 0 {
		return newcap
	}
	mem := newcap * elemSize
	for _, c := range goSizeClasses {
		if mem <= c {
			return c / elemSize
		}
	}
	// large objects: rounded up to the page size
	const page = 8192
	mem = (mem + page - 1) / page * page
	return mem / elemSize
}
