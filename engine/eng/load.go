package eng

import (
	"fmt"
	"os"
	"path/filepath"
	"sort"
	"strings"
	"time"

	"golang.org/x/tools/go/packages"
	"golang.org/x/tools/go/ssa"
	"golang.org/x/tools/go/ssa/ssautil"
)

const GoBin = "/opt/veriftools/go1.26.8/bin"

func GoEnv() []string {
	env := []string{}
	for _, kv := range os.Environ() {
		if strings.HasPrefix(kv, "PATH=") || strings.HasPrefix(kv, "GOFLAGS=") || strings.HasPrefix(kv, "GOPROXY=") ||
			strings.HasPrefix(kv, "GOSUMDB=") || strings.HasPrefix(kv, "GOTOOLCHAIN=") {
			continue
		}
		env = append(env, kv)
	}
	env = append(env, "PATH="+GoBin+":"+os.Getenv("PATH"), "GOFLAGS=-mod=mod", "GOPROXY=off", "GOSUMDB=off", "GOTOOLCHAIN=local")
	return env
}

// pkgDirs maps harness sub-directory names to repository package directories.
var pkgDirs = map[string]string{"pubsub": "", "timecache": "timecache", "partialmessages": "partialmessages", "pb": "pb"}

type Loaded struct {
	Prog     *ssa.Program
	Pkgs     map[string]*ssa.Package // by harness dir name
	Overlay  map[string][]byte
	RepoDir  string
	HarnDir  string
	LoadTime time.Duration
	Harnesses []*HarnessFn
}

type HarnessFn struct {
	Prop     string
	Name     string // full function name
	Short    string
	PkgKey   string
	Fn       *ssa.Function
	Thorough bool
	Threads  bool
}

// BuildOverlay maps virtual files under repoDir to the contents of the harness files.
func BuildOverlay(repoDir, harnDir string) (map[string][]byte, error) {
	ov := map[string][]byte{}
	rt, err := os.ReadFile(filepath.Join(harnDir, "rt", "rt.go.txt"))
	if err != nil {
		return nil, err
	}
	for key, sub := range pkgDirs {
		files, _ := filepath.Glob(filepath.Join(harnDir, key, "*.go"))
		if len(files) == 0 {
			continue
		}
		pkgName := key
		for _, f := range files {
			b, err := os.ReadFile(f)
			if err != nil {
				return nil, err
			}
			ov[filepath.Join(repoDir, sub, filepath.Base(f))] = b
		}
		ov[filepath.Join(repoDir, sub, "zz_verif_rt.go")] = []byte(strings.Replace(string(rt), "package PKG", "package "+pkgName, 1))
	}
	return ov, nil
}

func Load(repoDir, harnDir string) (*Loaded, error) {
	t0 := time.Now()
	ov, err := BuildOverlay(repoDir, harnDir)
	if err != nil {
		return nil, err
	}
	cfg := &packages.Config{Mode: packages.LoadAllSyntax, Dir: repoDir, BuildFlags: []string{"-tags=verif"}, Env: GoEnv(), Overlay: ov}
	pkgs, err := packages.Load(cfg, ".", "./timecache", "./partialmessages", "./pb")
	if err != nil {
		return nil, err
	}
	var errs []string
	packages.Visit(pkgs, nil, func(p *packages.Package) {
		for _, e := range p.Errors {
			errs = append(errs, e.Error())
		}
	})
	if len(errs) > 0 {
		if len(errs) > 20 {
			errs = errs[:20]
		}
		return nil, fmt.Errorf("package load errors (harness no longer compiles against the tree?):\n%s", strings.Join(errs, "\n"))
	}
	prog, spkgs := ssautil.AllPackages(pkgs, ssa.InstantiateGenerics)
	l := &Loaded{Prog: prog, Pkgs: map[string]*ssa.Package{}, Overlay: ov, RepoDir: repoDir, HarnDir: harnDir}
	for i, p := range pkgs {
		if spkgs[i] == nil {
			continue
		}
		spkgs[i].Build()
		switch {
		case strings.HasSuffix(p.PkgPath, "/timecache"):
			l.Pkgs["timecache"] = spkgs[i]
		case strings.HasSuffix(p.PkgPath, "/partialmessages"):
			l.Pkgs["partialmessages"] = spkgs[i]
		case strings.HasSuffix(p.PkgPath, "/pb"):
			l.Pkgs["pb"] = spkgs[i]
		default:
			l.Pkgs["pubsub"] = spkgs[i]
		}
	}
	for key, sp := range l.Pkgs {
		var names []string
		for n := range sp.Members {
			names = append(names, n)
		}
		sort.Strings(names)
		for _, n := range names {
			fn, ok := sp.Members[n].(*ssa.Function)
			if !ok {
				continue
			}
			var rest string
			h := &HarnessFn{Name: n, PkgKey: key, Fn: fn}
			switch {
			case strings.HasPrefix(n, "vpH_"):
				rest = n[4:]
			case strings.HasPrefix(n, "vpHT_"):
				rest = n[5:]
				h.Thorough = true
			case strings.HasPrefix(n, "vpHC_"): // thread (concurrency) harness
				rest = n[5:]
				h.Threads = true
			case strings.HasPrefix(n, "vpHCT_"):
				rest = n[6:]
				h.Threads = true
				h.Thorough = true
			default:
				continue
			}
			i := strings.Index(rest, "_")
			if i < 0 {
				continue
			}
			h.Prop, h.Short = rest[:i], rest[i+1:]
			l.Harnesses = append(l.Harnesses, h)
		}
	}
	l.LoadTime = time.Since(t0)
	return l, nil
}

// runInit evaluates the package initialisers of the repository packages (dependency inits are skipped).
func (e *Engine) runInit(l *Loaded) {
	e.inInit = true
	defer func() { e.inInit = false }()
	for _, key := range []string{"pb", "timecache", "partialmessages", "pubsub"} {
		sp := l.Pkgs[key]
		if sp == nil {
			continue
		}
		if fn := sp.Func("init"); fn != nil {
			e.G = e.tb.True
			e.CallFunction(fn, nil, nil)
		}
	}
	e.G = e.tb.True
	// obligations raised while initialising are not the harness's
	e.obls = nil
	e.covers = nil
	e.funcs = map[string]int{}
	e.stubs = map[string]int{}
	e.nBlocks, e.nInstrs = 0, 0
}
