package eng

import (
	"go/token"
	"go/types"

	"golang.org/x/tools/go/ssa"
)

// threadState is non-nil while a thread-mode harness runs (see threads_impl.go).
type threadState struct {
	impl *threadImpl
}

func (t *threadState) spawn(e *Engine, call func(), desc string) { t.impl.spawn(e, e.G, call, desc) }
func (t *threadState) spawnGuarded(e *Engine, g *Term, call func(), desc string) {
	t.impl.spawn(e, g, call, desc)
}
func (t *threadState) chanSend(e *Engine, c *ChanV, v Value, pos token.Pos) {
	panic(e.unsupported("channel send in thread mode"))
}
func (t *threadState) chanRecv(e *Engine, c *ChanV, et types.Type, pos token.Pos) (Value, *Term) {
	panic(e.unsupported("channel receive in thread mode"))
}
func (t *threadState) selectStmt(e *Engine, fr *Frame, x *ssa.Select) Value {
	return t.impl.selectStmt(e, fr, x)
}
func (t *threadState) syncOp(e *Engine, name string, a []Value, pos token.Pos) Value {
	return t.impl.syncOp(e, name, a, pos)
}

type threadImpl struct{}

func (t *threadImpl) spawn(e *Engine, g *Term, call func(), desc string) {
	panic(e.unsupported("thread mode not built"))
}
func (t *threadImpl) selectStmt(e *Engine, fr *Frame, x *ssa.Select) Value {
	panic(e.unsupported("thread mode not built"))
}
func (t *threadImpl) syncOp(e *Engine, name string, a []Value, pos token.Pos) Value {
	panic(e.unsupported("thread mode not built"))
}
