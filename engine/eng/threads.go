package eng

import (
	"fmt"
	"go/token"
	"go/types"
	"runtime"
	"strings"

	"golang.org/x/tools/go/ssa"
)

// Thread mode ("fork mode"): explicit-path symbolic execution of a small concurrent harness.
//
//   * the harness starts threads with vpGo and runs the scheduler with vpWait;
//   * a thread runs atomically between VISIBLE operations (mutex / rwmutex / cond operations, context
//     cancellation, the non-blocking ctx.Done() poll, vpYield); before each visible operation the scheduler picks
//     the next thread among those whose pending operation is enabled;
//   * nothing is merged: every symbolic branch and every scheduling choice is a DECISION; the driver (runThreads)
//     re-executes the harness once per decision sequence (depth-first), data stays symbolic along each path and the
//     solver closes every path's obligations; infeasible branch sides are pruned with a solver call;
//   * sync.Cond is modelled as the runtime implements it: Wait = {add ticket; unlock} then block until the ticket is
//     notified, then re-lock; Signal/Broadcast need no lock and wake only tickets already registered. That is what
//     makes "cancel lands between the context check and the wait" expressible;
//   * a state in which no thread can move is a deadlock: the harness inspects it with vpThreadDone.
//
// Engine threads are Go goroutines passing a baton, so exactly one evaluates at any time.

type threadState struct {
	impl *threadImpl
}

type thrStatus int

const (
	thrRunnable thrStatus = iota
	thrDone
	thrCancelled // AfterFunc callback unregistered before it started
)

type pendingOp struct {
	kind string // "", lock, rlock, condwait, join
	key  string
	tick int
}

type thr struct {
	id      int
	desc    string
	status  thrStatus
	started bool
	wake    chan struct{}
	op      pendingOp
	body    func()
	// evaluator context saved while the thread is not running
	G        *Term
	catchers []*Catcher
	depth    int
	curPos   token.Pos
	afterKey string // registration key when the thread is an AfterFunc callback
}

type lockState struct {
	writer  int // thread id or -1
	readers int
}

type condState struct {
	nextTicket int
	waiting    []int // tickets registered and not yet notified
	notified   map[int]bool
}

type decision struct {
	chosen, n int
	branch    bool // a symbolic branch side (not a scheduling choice)
}

type threadImpl struct {
	e         *Engine
	threads   []*thr
	cur       int
	prefix    []int
	taken     []decision
	locks     map[string]*lockState
	conds     map[string]*condState
	deadlock  bool
	err       interface{}
	kill      bool
	afterRegs map[string][]*thr // ctx object key -> callback threads not yet started
	steps     int
}

func newThreadImpl(e *Engine, prefix []int) *threadImpl {
	ti := &threadImpl{e: e, prefix: prefix, locks: map[string]*lockState{}, conds: map[string]*condState{}, afterRegs: map[string][]*thr{}}
	main := &thr{id: 0, desc: "main", started: true, wake: make(chan struct{}, 1)}
	ti.threads = []*thr{main}
	return ti
}

// decide returns the next decision among n options (n >= 2), replaying the prefix first.
func (ti *threadImpl) decide(n int) int {
	k := len(ti.taken)
	c := 0
	if k < len(ti.prefix) {
		c = ti.prefix[k]
		if c >= n {
			panic(ti.e.unsupported("thread mode: decision prefix does not fit (non-deterministic re-execution)"))
		}
	}
	ti.taken = append(ti.taken, decision{chosen: c, n: n})
	return c
}

// branch decides a symbolic branch: infeasible sides are pruned with the solver, the chosen side's condition joins
// the global path condition.
func (ti *threadImpl) branch(c *Term) bool {
	e := ti.e
	tb := e.tb
	canT := e.feasible(tb.And(e.G, c))
	canF := e.feasible(tb.And(e.G, tb.Not(c)))
	var side bool
	switch {
	case canT && canF:
		side = ti.decide(2) == 0
		ti.taken[len(ti.taken)-1].branch = true
	case canT:
		side = true
	default:
		side = false
	}
	if side {
		e.andAssume(tb.Implies(e.G, c))
	} else {
		e.andAssume(tb.Implies(e.G, tb.Not(c)))
	}
	return side
}

func (ti *threadImpl) spawn(e *Engine, g *Term, call func(), desc string) *thr {
	t := &thr{id: len(ti.threads), desc: desc, wake: make(chan struct{}, 1), body: call, G: e.tb.True}
	ti.threads = append(ti.threads, t)
	go func() {
		<-t.wake
		if ti.kill {
			return
		}
		func() {
			defer func() {
				if r := recover(); r != nil {
					ti.err = r
				}
			}()
			t.started = true
			ti.restore(t)
			t.body()
		}()
		t.status = thrDone
		ti.handoff(t, true)
	}()
	return t
}

func (ti *threadImpl) save(t *thr) {
	e := ti.e
	t.G, t.catchers, t.depth, t.curPos = e.G, e.catchers, e.depth, e.curPos
}

func (ti *threadImpl) restore(t *thr) {
	e := ti.e
	e.G, e.catchers, e.depth, e.curPos = t.G, t.catchers, t.depth, t.curPos
	ti.cur = t.id
}

func (ti *threadImpl) enabled(t *thr) bool {
	if t.status != thrRunnable {
		return false
	}
	switch t.op.kind {
	case "":
		return true
	case "lock":
		l := ti.lock(t.op.key)
		return l.writer == -1 && l.readers == 0
	case "rlock":
		return ti.lock(t.op.key).writer == -1
	case "condwait":
		return ti.cond(t.op.key).notified[t.op.tick]
	case "join":
		for _, o := range ti.threads {
			if o.id != t.id && o.status == thrRunnable {
				return false
			}
		}
		return true
	}
	return false
}

func (ti *threadImpl) lock(k string) *lockState {
	l := ti.locks[k]
	if l == nil {
		l = &lockState{writer: -1}
		ti.locks[k] = l
	}
	return l
}

func (ti *threadImpl) cond(k string) *condState {
	c := ti.conds[k]
	if c == nil {
		c = &condState{notified: map[int]bool{}}
		ti.conds[k] = c
	}
	return c
}

// schedule is called by the running thread t right before a visible operation (recorded in t.op). It returns when t
// has been chosen to perform it.
func (ti *threadImpl) schedule(t *thr) {
	ti.handoff(t, false)
}

// handoff picks the next thread. finished: t has ended (it never resumes).
func (ti *threadImpl) handoff(t *thr, finished bool) {
	if ti.err != nil {
		// propagate engine errors to the main thread
		if t.id != 0 {
			ti.wakeThread(ti.threads[0])
			if !finished {
				<-t.wake
				runtime.Goexit()
			}
			return
		}
		panic(ti.err)
	}
	ti.steps++
	if ti.steps > 4000 {
		ti.err = ti.e.unsupported("thread mode: more than 4000 scheduling steps in one execution")
		ti.handoff(t, finished)
		return
	}
	ti.save(t)
	var en []*thr
	for _, o := range ti.threads {
		if o.id != 0 && ti.enabled(o) {
			en = append(en, o)
		}
	}
	// the main thread (vpWait / join) only moves when everybody else is done or stuck
	var next *thr
	if len(en) == 0 {
		m := ti.threads[0]
		if m.op.kind == "join" {
			for _, o := range ti.threads {
				if o.id != 0 && o.status == thrRunnable {
					ti.deadlock = true
				}
			}
			next = m
		} else if ti.enabled(m) {
			next = m
		} else {
			ti.err = ti.e.unsupported("thread mode: the harness's main thread is blocked outside vpWait")
			next = m
		}
	} else if len(en) == 1 {
		next = en[0]
	} else {
		next = en[ti.decide(len(en))]
	}
	if next == t && !finished {
		ti.restore(t)
		return
	}
	ti.wakeThread(next)
	if finished {
		return
	}
	<-t.wake
	if ti.kill {
		runtime.Goexit()
	}
	if ti.err != nil && t.id == 0 {
		panic(ti.err)
	}
	ti.restore(t)
}

func (ti *threadImpl) wakeThread(t *thr) {
	t.wake <- struct{}{}
}

func (ti *threadImpl) curThr() *thr { return ti.threads[ti.cur] }

// ---- operations called from the evaluator -----------------------------------------------------------

func (t *threadState) spawn(e *Engine, call func(), desc string) { t.impl.spawn(e, e.G, call, desc) }
func (t *threadState) spawnGuarded(e *Engine, g *Term, call func(), desc string) {
	t.impl.spawn(e, g, call, desc)
}
func (t *threadState) chanSend(e *Engine, c *ChanV, v Value, pos token.Pos) {
	panic(e.unsupported("channel send in thread mode"))
}
func (t *threadState) chanRecv(e *Engine, c *ChanV, et types.Type, pos token.Pos) (Value, *Term) {
	panic(e.unsupported("channel receive in thread mode"))
}

// selectStmt: only the non-blocking poll of ctx.Done() (`select { case <-ctx.Done(): ... default: }`) is supported.
func (t *threadState) selectStmt(e *Engine, fr *Frame, x *ssa.Select) Value {
	ti := t.impl
	tb := e.tb
	if x.Blocking || len(x.States) != 1 || x.States[0].Dir == types.SendOnly {
		panic(e.unsupported("select in thread mode (only the non-blocking ctx.Done() poll is supported)"))
	}
	cv := e.operand(fr, x.States[0].Chan).(*ChanV)
	if len(cv.Alts) != 1 || cv.Alts[0].Obj == nil || cv.Alts[0].Obj.Ctx == nil {
		panic(e.unsupported("select in thread mode on a channel that is not ctx.Done()"))
	}
	th := ti.curThr()
	th.op = pendingOp{}
	ti.schedule(th) // visible: the poll observes the cancellation flag
	c := e.ctxCancelled(cv.Alts[0].Obj.Ctx)
	if !c.IsConst() {
		panic(e.unsupported("thread mode: symbolic cancellation state"))
	}
	et := x.States[0].Chan.Type().Underlying().(*types.Chan).Elem()
	if c.IsTrue() {
		return &TupleV{[]Value{tb.Int(0), tb.False, e.zero(et)}}
	}
	return &TupleV{[]Value{tb.Int(-1), tb.False, e.zero(et)}}
}

func (t *threadState) syncOp(e *Engine, name string, a []Value, pos token.Pos) Value {
	ti := t.impl
	th := ti.curThr()
	short := name[strings.LastIndex(name, ".")+1:]
	isCond := strings.Contains(name, "sync.Cond")
	isRW := strings.Contains(name, "sync.RWMutex")
	switch {
	case isCond && short == "Wait":
		ck := e.ghostKey(a[0], "cond")
		lk := ti.condLockKey(e, a[0], pos)
		// scheduling point BEFORE the waiter registers: a Broadcast that lands here is lost, as in the runtime
		th.op = pendingOp{}
		ti.schedule(th)
		c := ti.cond(ck)
		tick := c.nextTicket
		c.nextTicket++
		c.waiting = append(c.waiting, tick)
		l := ti.lock(lk)
		if l.writer != th.id {
			e.runtimePanic("sync: unlock of unlocked mutex (Cond.Wait without holding L)", pos, e.tb.True)
			return nil
		}
		l.writer = -1
		th.op = pendingOp{kind: "condwait", key: ck, tick: tick}
		ti.schedule(th)
		delete(c.notified, tick)
		th.op = pendingOp{kind: "lock", key: lk}
		ti.schedule(th)
		ti.lock(lk).writer = th.id
		th.op = pendingOp{}
		return nil
	case isCond && (short == "Signal" || short == "Broadcast"):
		ck := e.ghostKey(a[0], "cond")
		// (no scheduling point: under data-race freedom the notification commutes with everything except the
		// registration of waiters, and Wait has its own scheduling point right before it registers)
		c := ti.cond(ck)
		if short == "Signal" {
			if len(c.waiting) > 0 {
				c.notified[c.waiting[0]] = true
				c.waiting = c.waiting[1:]
			}
		} else {
			for _, w := range c.waiting {
				c.notified[w] = true
			}
			c.waiting = nil
		}
		return nil
	case short == "Lock":
		k := e.ghostKey(a[0], "mutex")
		th.op = pendingOp{kind: "lock", key: k}
		ti.schedule(th)
		ti.lock(k).writer = th.id
		th.op = pendingOp{}
		return nil
	case short == "Unlock":
		k := e.ghostKey(a[0], "mutex")
		l := ti.lock(k)
		if l.writer == -1 {
			e.runtimePanic("sync: unlock of unlocked mutex", pos, e.tb.True)
			return nil
		}
		l.writer = -1
		th.op = pendingOp{} // (no scheduling point after a release: the thread runs on to its next acquire/visible operation)
		return nil
	case isRW && short == "RLock":
		k := e.ghostKey(a[0], "mutex")
		th.op = pendingOp{kind: "rlock", key: k}
		ti.schedule(th)
		ti.lock(k).readers++
		th.op = pendingOp{}
		return nil
	case isRW && short == "RUnlock":
		k := e.ghostKey(a[0], "mutex")
		l := ti.lock(k)
		if l.readers == 0 {
			e.runtimePanic("sync: RUnlock of unlocked RWMutex", pos, e.tb.True)
			return nil
		}
		l.readers--
		th.op = pendingOp{}
		return nil
	}
	panic(e.unsupported("thread mode: %s", name))
}

// condLockKey finds the key of the mutex c.L points to.
func (ti *threadImpl) condLockKey(e *Engine, condPtr Value, pos token.Pos) string {
	cp := condPtr.(*Ptr)
	sv, ok := e.load(cp, pos).(*StructV)
	if !ok {
		panic(e.unsupported("thread mode: sync.Cond value"))
	}
	for _, f := range sv.F {
		if iv, ok := f.(*IfaceV); ok {
			for _, al := range iv.Alts {
				if al.T != nil {
					return e.ghostKey(al.V, "mutex")
				}
			}
		}
	}
	panic(e.unsupported("thread mode: sync.Cond without L"))
}

// ---- context.AfterFunc in thread mode ------------------------------------------------------------------

func (ti *threadImpl) afterFunc(e *Engine, ctx *Object, fv *FuncV) (stopKey string) {
	key := fmt.Sprintf("af%d", len(ti.afterRegs))
	t := ti.spawnParked(e, func() { e.callFuncV(fv, nil, token.NoPos) }, "context.AfterFunc callback")
	t.afterKey = key
	ck := fmt.Sprintf("ctx%d", ctx.ID)
	if e.ctxCancelled(ctx).IsTrue() {
		// already cancelled: the callback is runnable at once
		return key
	}
	t.status = thrCancelled // not runnable until the context is cancelled
	ti.afterRegs[ck] = append(ti.afterRegs[ck], t)
	return key
}

func (ti *threadImpl) spawnParked(e *Engine, call func(), desc string) *thr {
	return ti.spawn(e, e.tb.True, call, desc)
}

// onCancel makes the registered callbacks of ctx (and of its descendants) runnable.
func (ti *threadImpl) onCancel(e *Engine, ctx *Object) {
	ck := fmt.Sprintf("ctx%d", ctx.ID)
	for _, t := range ti.afterRegs[ck] {
		if t.status == thrCancelled && !t.started && t.afterKey != "" {
			t.status = thrRunnable
		}
	}
	delete(ti.afterRegs, ck)
	for _, ch := range e.ctxChildren[ctx] {
		ti.onCancel(e, ch)
	}
}

// stop unregisters a callback that has not started yet (returns whether it did so).
func (ti *threadImpl) stop(key string) bool {
	for _, t := range ti.threads {
		if t.afterKey == key && !t.started {
			t.status = thrCancelled
			t.afterKey = ""
			for ck, l := range ti.afterRegs {
				var keep []*thr
				for _, x := range l {
					if x != t {
						keep = append(keep, x)
					}
				}
				ti.afterRegs[ck] = keep
			}
			return true
		}
	}
	return false
}

// shutdown releases every parked engine goroutine at the end of an execution.
func (ti *threadImpl) shutdown() {
	ti.kill = true
	for _, t := range ti.threads[1:] {
		select {
		case t.wake <- struct{}{}:
		default:
		}
	}
}
