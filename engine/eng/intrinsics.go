package eng

import (
	"os"
	"crypto/sha256"
	"fmt"
	"go/token"
	"go/types"
	"math"
	"strings"

	"golang.org/x/tools/go/ssa"
)

type intrinsic func(e *Engine, args []Value, pos token.Pos, fn *ssa.Function) Value

// ---------------------------------------------------------------------------------------------
// nondeterministic inputs

func (e *Engine) fresh(tag, kind string, s Sort) *Term {
	occ := e.ndOcc[tag]
	e.ndOcc[tag] = occ + 1
	name := fmt.Sprintf("%s#%d", tag, occ)
	if e.fixed != nil {
		v := e.fixed[name]
		var t *Term
		switch s.K {
		case SBool:
			t = e.tb.Bool(v != 0)
		case SBV:
			t = e.tb.BVConst(v, s.W)
		default:
			t = e.tb.mk(&Term{Op: OpConst, S: s, C: v})
		}
		e.nondets = append(e.nondets, &Nondet{Name: name, Tag: tag, Occ: occ, T: t, Kind: kind})
		return t
	}
	t := e.tb.Var(name, s)
	e.nondets = append(e.nondets, &Nondet{Name: name, Tag: tag, Occ: occ, T: t, Kind: kind})
	return t
}

func (e *Engine) freshInt(tag string, lo, hi int64) *Term {
	t := e.fresh(tag, "int", BV64)
	nd := e.nondets[len(e.nondets)-1]
	nd.Lo, nd.Hi = lo, hi
	// range constraint holds unconditionally (it describes the input domain); it must be built BEFORE the
	// bound is registered, otherwise the comparison would simplify itself away
	e.andAssume(e.tb.Cmp(OpSLE, e.tb.Int(lo), t), e.tb.Cmp(OpSLE, t, e.tb.Int(hi)))
	if lo >= 0 && e.fixed == nil {
		e.tb.SetVarUB(t, uint64(hi))
	}
	return t
}

func (e *Engine) constStr(v Value, what string) string {
	s, ok := v.(*StrV)
	if !ok || len(s.Alts) != 1 || s.Alts[0].Sym != nil {
		panic(e.unsupported("%s must be a concrete string", what))
	}
	return s.Alts[0].S
}

func (e *Engine) constInt(v Value, what string) int64 {
	t, ok := v.(*Term)
	if !ok || !t.IsConst() {
		panic(e.unsupported("%s must be a concrete integer", what))
	}
	return t.SignedVal()
}

func zeroResults(e *Engine, fn *ssa.Function) Value {
	res := fn.Signature.Results()
	switch res.Len() {
	case 0:
		return nil
	case 1:
		return e.zero(res.At(0).Type())
	}
	return e.zero(res)
}

func noop(e *Engine, args []Value, pos token.Pos, fn *ssa.Function) Value {
	if fn == nil {
		return nil
	}
	return zeroResults(e, fn)
}

func (e *Engine) pkgIntrinsic(fn *ssa.Function) intrinsic {
	if fn.Pkg == nil {
		// methods of instantiated generics etc. have Pkg nil; use the object's package
		if obj := fn.Object(); obj != nil && obj.Pkg() != nil {
			return e.pkgIntrinsicPath(obj.Pkg().Path(), fn)
		}
		return nil
	}
	return e.pkgIntrinsicPath(fn.Pkg.Pkg.Path(), fn)
}

func (e *Engine) pkgIntrinsicPath(path string, fn *ssa.Function) intrinsic {
	switch {
	case path == "log/slog", strings.HasSuffix(path, "/gologshim"), path == "log", path == "github.com/ipfs/go-log/v2":
		return noop
	case path == "github.com/gogo/protobuf/proto" && strings.HasPrefix(fn.Name(), "Register"):
		return noop
	}
	if e.inInit && !strings.HasPrefix(path, e.repoPkgPrefix) && fn.Name() == "init" {
		return noop
	}
	return nil
}

func (e *Engine) ghostKey(v Value, what string) string {
	p, ok := v.(*Ptr)
	if !ok || len(p.Alts) != 1 || p.Alts[0].Obj == nil {
		// unions: use first feasible alternative only if unique
		if ok {
			var only *PtrAlt
			n := 0
			for i := range p.Alts {
				if p.Alts[i].Obj == nil || e.tb.And(e.G, p.Alts[i].G).IsFalse() {
					continue
				}
				only = &p.Alts[i]
				n++
			}
			if n == 1 {
				return fmt.Sprintf("%s:%d:%v", what, only.Obj.ID, only.Path)
			}
		}
		panic(e.unsupported("%s through a non-unique pointer", what))
	}
	return fmt.Sprintf("%s:%d:%v", what, p.Alts[0].Obj.ID, p.Alts[0].Path)
}

func (e *Engine) initIntrinsics() {
	tb := e.tb
	I := map[string]intrinsic{}
	e.intr = I

	// ---- harness runtime -----------------------------------------------------------------
	I["vp:vpBool"] = func(e *Engine, a []Value, pos token.Pos, fn *ssa.Function) Value {
		return e.fresh(e.constStr(a[0], "vpBool tag"), "bool", BoolSort)
	}
	I["vp:vpInt"] = func(e *Engine, a []Value, pos token.Pos, fn *ssa.Function) Value {
		lo, hi := e.constInt(a[1], "vpInt lo"), e.constInt(a[2], "vpInt hi")
		if lo == hi {
			// still register so replay files stay aligned
			t := e.freshInt(e.constStr(a[0], "vpInt tag"), lo, hi)
			_ = t
			return tb.Int(lo)
		}
		return e.freshInt(e.constStr(a[0], "vpInt tag"), lo, hi)
	}
	I["vp:vpInt64"] = func(e *Engine, a []Value, pos token.Pos, fn *ssa.Function) Value {
		return e.fresh(e.constStr(a[0], "tag"), "int64", BV64)
	}
	I["vp:vpUint64"] = I["vp:vpInt64"]
	I["vp:vpByte"] = func(e *Engine, a []Value, pos token.Pos, fn *ssa.Function) Value {
		return e.fresh(e.constStr(a[0], "tag"), "byte", BV8)
	}
	I["vp:vpFloat"] = func(e *Engine, a []Value, pos token.Pos, fn *ssa.Function) Value {
		return e.fresh(e.constStr(a[0], "tag"), "float", F64)
	}
	I["vp:vpAssume"] = func(e *Engine, a []Value, pos token.Pos, fn *ssa.Function) Value {
		// the assumption is recorded as (guard => c); the guard itself need not carry c (every later
		// obligation is decided together with the assumptions), which keeps guards small
		e.addAssume(a[0].(*Term))
		if a[0].(*Term).IsFalse() {
			e.kills++
			e.G = tb.False
		}
		return nil
	}
	I["vp:vpAssert"] = func(e *Engine, a []Value, pos token.Pos, fn *ssa.Function) Value {
		label := e.constStr(a[1], "vpAssert label")
		e.asserts++
		if os.Getenv("VERIF_DEBUG_TERMS") != "" {
			fmt.Fprintf(os.Stderr, "terms=%d at %s (%s)\n", e.tb.NumTerms(), e.posStr(pos), label)
		}
		e.addObl("assert", label, pos, tb.Not(a[0].(*Term)))
		// reachability twin
		e.covers = append(e.covers, &Cover{Label: "reach:" + label, Pos: e.posStr(pos), Cond: e.G, Assume: e.assume})
		return nil
	}
	I["vp:vpCover"] = func(e *Engine, a []Value, pos token.Pos, fn *ssa.Function) Value {
		label := e.constStr(a[1], "vpCover label")
		e.covers = append(e.covers, &Cover{Label: label, Pos: e.posStr(pos), Cond: tb.And(e.G, a[0].(*Term)), Assume: e.assume})
		return nil
	}
	I["vp:vpAdvance"] = func(e *Engine, a []Value, pos token.Pos, fn *ssa.Function) Value {
		d := a[0].(*Term)
		e.addObl("assert", "vpAdvance with negative duration", pos, tb.Cmp(OpSLT, d, tb.Int(0)))
		e.clock = tb.Ite(e.G, tb.BVOp(OpAdd, e.clock, d), e.clock)
		return nil
	}
	// vpRunWithTick(f, d): f runs as a goroutine whose first ticker fires exactly once, d later (d = the ticker's period).
	// Engine: the clock advances by d, the next ticker created holds one tick stamped with that instant, f runs until
	// it blocks. (f must not read the clock before its ticker fires.)
	I["vp:vpRunWithTick"] = func(e *Engine, a []Value, pos token.Pos, fn *ssa.Function) Value {
		d := a[1].(*Term)
		e.clock = tb.Ite(e.G, tb.BVOp(OpAdd, e.clock, d), e.clock)
		e.tickPreload = true
		c := &Catcher{PanicG: tb.False, BlockG: tb.False, CatchBlock: true}
		e.catchers = append(e.catchers, c)
		G0 := e.G
		e.callFuncV(a[0].(*FuncV), nil, pos)
		e.catchers = e.catchers[:len(e.catchers)-1]
		e.G = tb.Or(e.G, tb.And(G0, c.BlockG))
		e.tickPreload = false
		return nil
	}
	// vpBlocksWithTick(f, d): as vpRunWithTick but EVERY timer, ticker and time.After channel f creates holds one tick; reports whether f is left blocked (on any path) instead of returning.
	I["vp:vpBlocksWithTick"] = func(e *Engine, a []Value, pos token.Pos, fn *ssa.Function) Value {
		d := a[1].(*Term)
		e.clock = tb.Ite(e.G, tb.BVOp(OpAdd, e.clock, d), e.clock)
		e.tickAll = true // every timer / ticker / time.After channel created by f holds one tick
		defer func() { e.tickAll = false }()
		e.tickPreload = true
		c := &Catcher{PanicG: tb.False, BlockG: tb.False, CatchBlock: true}
		e.catchers = append(e.catchers, c)
		G0 := e.G
		e.callFuncV(a[0].(*FuncV), nil, pos)
		e.catchers = e.catchers[:len(e.catchers)-1]
		e.G = tb.Or(e.G, tb.And(G0, c.BlockG))
		e.tickPreload = false
		return c.BlockG
	}
	I["vp:vpPanics"] = func(e *Engine, a []Value, pos token.Pos, fn *ssa.Function) Value {
		c := &Catcher{PanicG: tb.False, BlockG: tb.False, CatchPanic: true}
		e.catchers = append(e.catchers, c)
		G0 := e.G
		e.callFuncV(a[0].(*FuncV), nil, pos)
		e.catchers = e.catchers[:len(e.catchers)-1]
		// continue on all paths that entered (panicking ones resume here, as after recover)
		normal := e.G
		e.G = tb.Or(normal, tb.And(G0, c.PanicG))
		return c.PanicG
	}
	I["vp:vpBlocks"] = func(e *Engine, a []Value, pos token.Pos, fn *ssa.Function) Value {
		c := &Catcher{PanicG: tb.False, BlockG: tb.False, CatchBlock: true}
		e.catchers = append(e.catchers, c)
		G0 := e.G
		e.callFuncV(a[0].(*FuncV), nil, pos)
		e.catchers = e.catchers[:len(e.catchers)-1]
		e.G = tb.Or(e.G, tb.And(G0, c.BlockG))
		return c.BlockG
	}
	I["vp:vpFireAll"] = func(e *Engine, a []Value, pos token.Pos, fn *ssa.Function) Value {
		e.fireAllPending()
		return nil
	}
	// vpFireAllBlocked: runs every parked goroutine and reports whether any of them is left blocked for good (a library
	// goroutine that does not terminate); natively: after the bubble is quiescent, is a goroutine started by the library
	// still alive?
	I["vp:vpFireAllBlocked"] = func(e *Engine, a []Value, pos token.Pos, fn *ssa.Function) Value {
		blocked := tb.False
		for i := 0; i < len(e.pending); i++ {
			c := &Catcher{PanicG: tb.False, BlockG: tb.False, CatchBlock: true}
			e.catchers = append(e.catchers, c)
			e.firePending(i)
			e.catchers = e.catchers[:len(e.catchers)-1]
			blocked = tb.Or(blocked, c.BlockG)
		}
		return blocked
	}
	I["vp:vpPending"] = func(e *Engine, a []Value, pos token.Pos, fn *ssa.Function) Value {
		n := 0
		for _, p := range e.pending {
			if !p.Done {
				n++
			}
		}
		return tb.Int(int64(n))
	}
	I["vp:vpFire"] = func(e *Engine, a []Value, pos token.Pos, fn *ssa.Function) Value {
		// fire the i-th not-yet-run parked goroutine
		i := int(e.constInt(a[0], "vpFire index"))
		k := 0
		for j, p := range e.pending {
			if p.Done {
				continue
			}
			if k == i {
				e.firePendingQuiet(j)
				return nil
			}
			k++
		}
		return nil
	}
	I["vp:vpDropPending"] = func(e *Engine, a []Value, pos token.Pos, fn *ssa.Function) Value {
		for _, p := range e.pending {
			p.Done = true
		}
		return nil
	}
	I["vp:vpOpt"] = func(e *Engine, a []Value, pos token.Pos, fn *ssa.Function) Value {
		k, v := e.constStr(a[0], "vpOpt key"), int(e.constInt(a[1], "vpOpt value"))
		switch k {
		case "unwind":
			e.opts.Unwind = v
		case "maxalloc":
			e.opts.MaxAlloc = v
		case "mincap":
			e.opts.MinCap = v
		case "gocap":
			// 1: append grows capacities exactly as the gc runtime does on amd64 (growslice: doubling below 256 elements,
			// rounded up to the allocator's size class) instead of the default over-approximation "at least MinCap", so
			// that a counterexample which depends on spare capacity (aliasing through append) replays natively
			e.opts.GoCap = v != 0
		case "feasfrom":
			e.opts.FeasFrom = v
		case "native":
			// 0: the harness cannot be replayed natively (its environment outcomes are uninterpreted); counterexamples
			// are then confirmed by re-executing the harness in the engine with the model's concrete values
			e.NoNative = v == 0
		case "idshuffle":
			// the peer-selection shuffles return their input order (ONE possible random outcome instead of any permutation;
			// used by network compositions whose outcome does not depend on the order, stated as a bound there)
			e.idShuffle = v != 0
		case "bagchans":
			// buffered channels created from now on deliver their queued elements in ANY order (independent senders)
			e.bagChans = v != 0
		}
		return nil
	}
	I["vp:vpTier"] = func(e *Engine, a []Value, pos token.Pos, fn *ssa.Function) Value { return tb.Int(e.tier) }
	I["vp:vpSymbolic"] = func(e *Engine, a []Value, pos token.Pos, fn *ssa.Function) Value { return tb.True }
	I["vp:vpObserve"] = func(e *Engine, a []Value, pos token.Pos, fn *ssa.Function) Value {
		e.observations = append(e.observations, Observation{Label: e.constStr(a[0], "label"), V: a[1], G: e.G})
		if os.Getenv("VERIF_DUMP_OBSERVE") != "" {
			v := a[1]
			if iv, ok := v.(*IfaceV); ok && len(iv.Alts) == 1 {
				v = iv.Alts[0].V
			}
			if t, ok := v.(*Term); ok {
				fmt.Fprintf(os.Stderr, "OBSERVE %s id=%d: %s\n", e.constStr(a[0], "label"), t.ID, t.Dump(14))
			}
		}
		if e.fixed != nil {
			v := a[1]
			if iv, ok := v.(*IfaceV); ok && len(iv.Alts) == 1 {
				v = iv.Alts[0].V
			}
			fmt.Fprintf(os.Stderr, "OBSERVE %s=%s (guard %v)\n", e.constStr(a[0], "label"), e.show(v), e.G.IsTrue())
		}
		return nil
	}
	I["vp:vpBagChan"] = func(e *Engine, a []Value, pos token.Pos, fn *ssa.Function) Value {
		for _, al := range a[0].(*ChanV).Alts {
			if al.Obj != nil {
				al.Obj.Bag = true
			}
		}
		return nil
	}
	I["vp:vpOffer"] = func(e *Engine, a []Value, pos token.Pos, fn *ssa.Function) Value {
		// scripted environment: a goroutine that sends v on ch exists from now on (under the current guard)
		for _, al := range a[0].(*ChanV).Alts {
			if al.Obj == nil {
				continue
			}
			g := tb.And(e.G, al.G)
			if al.Obj.OfferG != nil && !al.Obj.OfferG.IsFalse() {
				panic(e.unsupported("vpOffer: a previous offer on this channel is still pending"))
			}
			al.Obj.OfferV, al.Obj.OfferG = a[1], g
		}
		return nil
	}
	I["vp:vpOfferPending"] = func(e *Engine, a []Value, pos token.Pos, fn *ssa.Function) Value {
		r := tb.False
		for _, al := range a[0].(*ChanV).Alts {
			if al.Obj != nil && al.Obj.OfferG != nil {
				r = tb.Or(r, tb.And(al.G, al.Obj.OfferG))
			}
		}
		return r
	}
	I["vp:vpGo"] = func(e *Engine, a []Value, pos token.Pos, fn *ssa.Function) Value {
		if e.threads == nil {
			panic(e.unsupported("vpGo outside a thread harness (name it vpHC_...)"))
		}
		fv := a[0].(*FuncV)
		t := e.threads.impl.spawn(e, tb.True, func() { e.callFuncV(fv, nil, pos) }, "vpGo@"+e.posStr(pos))
		return tb.Int(int64(t.id))
	}
	I["vp:vpWait"] = func(e *Engine, a []Value, pos token.Pos, fn *ssa.Function) Value {
		ti := e.threads.impl
		th := ti.curThr()
		th.op = pendingOp{kind: "join"}
		ti.schedule(th)
		th.op = pendingOp{}
		return nil
	}
	I["vp:vpThreadDone"] = func(e *Engine, a []Value, pos token.Pos, fn *ssa.Function) Value {
		i := int(e.constInt(a[0], "thread id"))
		ti := e.threads.impl
		return tb.Bool(i < len(ti.threads) && ti.threads[i].status == thrDone)
	}
	I["vp:vpYield"] = func(e *Engine, a []Value, pos token.Pos, fn *ssa.Function) Value {
		if e.threads != nil {
			ti := e.threads.impl
			th := ti.curThr()
			th.op = pendingOp{}
			ti.schedule(th)
		}
		return nil
	}
	I["vp:vpNow"] = func(e *Engine, a []Value, pos token.Pos, fn *ssa.Function) Value { return e.clock }
	I["vp:vpBytes"] = func(e *Engine, a []Value, pos token.Pos, fn *ssa.Function) Value {
		// vpBytes(tag, n): slice of n fresh symbolic bytes (n concrete)
		tag := e.constStr(a[0], "tag")
		n := int(e.constInt(a[1], "n"))
		arr := e.newObj(OArr, types.Typ[types.Uint8], "vpBytes:"+tag)
		arr.E = make([]Value, n)
		for i := range arr.E {
			arr.E[i] = e.fresh(tag, "byte", BV8)
		}
		return &SliceV{[]SliceAlt{{G: tb.True, Arr: arr, Off: tb.Int(0), Len: tb.Int(int64(n)), Cap: tb.Int(int64(n))}}}
	}
	I["vp:vpBytesLen"] = func(e *Engine, a []Value, pos token.Pos, fn *ssa.Function) Value {
		// vpBytesLen(tag, n, max): slice over max fresh bytes with symbolic length n (0<=n<=max)
		tag := e.constStr(a[0], "tag")
		n := a[1].(*Term)
		mx := int(e.constInt(a[2], "max"))
		arr := e.newObj(OArr, types.Typ[types.Uint8], "vpBytesLen:"+tag)
		arr.E = make([]Value, mx)
		for i := range arr.E {
			arr.E[i] = e.fresh(tag, "byte", BV8)
		}
		return &SliceV{[]SliceAlt{{G: tb.True, Arr: arr, Off: tb.Int(0), Len: n, Cap: tb.Int(int64(mx))}}}
	}
	I["vp:vpOpaqueBytes"] = func(e *Engine, a []Value, pos token.Pos, fn *ssa.Function) Value {
		// vpOpaqueBytes(n): slice of symbolic length n whose contents are never read (zero bytes), capacity = max engine alloc
		n := a[0].(*Term)
		mx := int(e.constInt(a[1], "max"))
		arr := e.newObj(OArr, types.Typ[types.Uint8], "vpOpaqueBytes")
		arr.E = make([]Value, mx)
		z := tb.BVConst(0, 8)
		for i := range arr.E {
			arr.E[i] = z
		}
		arr.Tag = "opaque"
		return &SliceV{[]SliceAlt{{G: tb.True, Arr: arr, Off: tb.Int(0), Len: n, Cap: n}}}
	}

	// ---- time ------------------------------------------------------------------------------
	I["time.Now"] = func(e *Engine, a []Value, pos token.Pos, fn *ssa.Function) Value { return e.clock }
	I["time.Since"] = func(e *Engine, a []Value, pos token.Pos, fn *ssa.Function) Value {
		return tb.BVOp(OpSub, e.clock, a[0].(*Term))
	}
	I["time.Until"] = func(e *Engine, a []Value, pos token.Pos, fn *ssa.Function) Value {
		return tb.BVOp(OpSub, a[0].(*Term), e.clock)
	}
	I["(time.Time).Add"] = func(e *Engine, a []Value, pos token.Pos, fn *ssa.Function) Value {
		return tb.BVOp(OpAdd, a[0].(*Term), a[1].(*Term))
	}
	I["(time.Time).Sub"] = func(e *Engine, a []Value, pos token.Pos, fn *ssa.Function) Value {
		return tb.BVOp(OpSub, a[0].(*Term), a[1].(*Term))
	}
	I["(time.Time).Before"] = func(e *Engine, a []Value, pos token.Pos, fn *ssa.Function) Value {
		return tb.Cmp(OpSLT, a[0].(*Term), a[1].(*Term))
	}
	I["(time.Time).After"] = func(e *Engine, a []Value, pos token.Pos, fn *ssa.Function) Value {
		return tb.Cmp(OpSLT, a[1].(*Term), a[0].(*Term))
	}
	I["(time.Time).Equal"] = func(e *Engine, a []Value, pos token.Pos, fn *ssa.Function) Value {
		return tb.Eq(a[0].(*Term), a[1].(*Term))
	}
	I["(time.Time).Compare"] = func(e *Engine, a []Value, pos token.Pos, fn *ssa.Function) Value {
		x, y := a[0].(*Term), a[1].(*Term)
		return tb.Ite(tb.Cmp(OpSLT, x, y), tb.Int(-1), tb.Ite(tb.Eq(x, y), tb.Int(0), tb.Int(1)))
	}
	I["(time.Time).IsZero"] = func(e *Engine, a []Value, pos token.Pos, fn *ssa.Function) Value {
		return tb.Eq(a[0].(*Term), tb.Int(zeroInstant))
	}
	I["(time.Time).UnixNano"] = func(e *Engine, a []Value, pos token.Pos, fn *ssa.Function) Value { return a[0] }
	I["(time.Time).Unix"] = func(e *Engine, a []Value, pos token.Pos, fn *ssa.Function) Value {
		return tb.BVOp(OpSDiv, a[0].(*Term), tb.Int(1e9))
	}
	I["time.Unix"] = func(e *Engine, a []Value, pos token.Pos, fn *ssa.Function) Value {
		return tb.BVOp(OpAdd, tb.BVOp(OpMul, a[0].(*Term), tb.Int(1e9)), a[1].(*Term))
	}
	I["(time.Time).String"] = func(e *Engine, a []Value, pos token.Pos, fn *ssa.Function) Value { return e.str("<time>") }
	I["time.Sleep"] = func(e *Engine, a []Value, pos token.Pos, fn *ssa.Function) Value {
		d := a[0].(*Term)
		pos0 := tb.Cmp(OpSLT, tb.Int(0), d)
		e.clock = tb.Ite(tb.And(e.G, pos0), tb.BVOp(OpAdd, e.clock, d), e.clock)
		return nil
	}
	// timers and tickers: channels that never fire by themselves (harness drives periodic functions)
	timerChan := func(e *Engine, a []Value, pos token.Pos, fn *ssa.Function) Value {
		ct := types.NewChan(types.SendRecv, fn.Pkg.Pkg.Scope().Lookup("Time").Type())
		c := e.newChan(ct, 1, "time."+fn.Name())
		if e.tickAll {
			for _, al := range c.Alts {
				e.enqueue(al.Obj, e.clock, pos)
			}
		}
		return c
	}
	I["time.After"] = timerChan
	I["time.Tick"] = timerChan
	I["time.NewTicker"] = func(e *Engine, a []Value, pos token.Pos, fn *ssa.Function) Value {
		tt := fn.Signature.Results().At(0).Type().(*types.Pointer).Elem()
		o := e.newObj(OCell, tt, "time.NewTicker")
		sv := e.zero(tt).(*StructV)
		ct := types.NewChan(types.SendRecv, fn.Pkg.Pkg.Scope().Lookup("Time").Type())
		nf := append([]Value(nil), sv.F...)
		ch := e.newChan(ct, 1, "ticker.C")
		nf[0] = ch
		o.V = &StructV{nf}
		if e.tickPreload || e.tickAll {
			e.tickPreload = false
			for _, al := range ch.Alts {
				e.enqueue(al.Obj, e.clock, pos)
			}
		}
		return e.ptrTo(o)
	}
	I["time.NewTimer"] = I["time.NewTicker"]
	I["(*time.Ticker).Stop"] = noop
	I["(*time.Ticker).Reset"] = noop
	I["(*time.Timer).Stop"] = noop
	I["(*time.Timer).Reset"] = noop

	// ---- sync (sequential semantics; thread mode overrides in threads.go) ---------------------
	for _, n := range []string{"(*sync.Mutex).Lock", "(*sync.Mutex).Unlock", "(*sync.RWMutex).Lock", "(*sync.RWMutex).Unlock",
		"(*sync.RWMutex).RLock", "(*sync.RWMutex).RUnlock", "(*sync.Cond).Wait", "(*sync.Cond).Signal", "(*sync.Cond).Broadcast",
		"(*sync.WaitGroup).Add", "(*sync.WaitGroup).Done", "(*sync.WaitGroup).Wait"} {
		name := n
		I[name] = func(e *Engine, a []Value, pos token.Pos, fn *ssa.Function) Value {
			if e.threads != nil {
				return e.threads.syncOp(e, name, a, pos)
			}
			if name == "(*sync.Cond).Wait" {
				e.wouldBlock("sync.Cond.Wait in sequential mode", pos, tb.True)
			}
			if name == "(*sync.WaitGroup).Wait" && e.hasPending() {
				e.fireAllPending()
			}
			return nil
		}
	}
	I["(*sync.Mutex).TryLock"] = func(e *Engine, a []Value, pos token.Pos, fn *ssa.Function) Value { return tb.True }
	I["sync.NewCond"] = func(e *Engine, a []Value, pos token.Pos, fn *ssa.Function) Value {
		ct := fn.Signature.Results().At(0).Type().(*types.Pointer).Elem()
		o := e.newObj(OCell, ct, "sync.NewCond")
		sv := e.zero(ct).(*StructV)
		nf := append([]Value(nil), sv.F...)
		// field L is the Locker
		st := ct.Underlying().(*types.Struct)
		for i := 0; i < st.NumFields(); i++ {
			if st.Field(i).Name() == "L" {
				nf[i] = a[0]
			}
		}
		o.V = &StructV{nf}
		return e.ptrTo(o)
	}
	I["(*sync.Once).Do"] = func(e *Engine, a []Value, pos token.Pos, fn *ssa.Function) Value {
		k := e.ghostKey(a[0], "once")
		done, ok := e.ghost[k]
		if !ok {
			done = tb.False
		}
		G0 := e.G
		g := tb.And(G0, tb.Not(done))
		e.ghost[k] = tb.Or(done, G0)
		if !g.IsFalse() {
			e.G = g
			e.callFuncV(a[1].(*FuncV), nil, pos)
			e.G = tb.Or(e.G, tb.And(G0, done))
		}
		return nil
	}
	atomicLoad := func(e *Engine, a []Value, pos token.Pos, fn *ssa.Function) Value {
		return e.load(a[0].(*Ptr), pos)
	}
	atomicStore := func(e *Engine, a []Value, pos token.Pos, fn *ssa.Function) Value {
		e.store(a[0].(*Ptr), a[1], pos)
		return nil
	}
	atomicAdd := func(e *Engine, a []Value, pos token.Pos, fn *ssa.Function) Value {
		p := a[0].(*Ptr)
		n := tb.BVOp(OpAdd, e.load(p, pos).(*Term), a[1].(*Term))
		e.store(p, n, pos)
		return n
	}
	for _, t := range []string{"Int32", "Int64", "Uint32", "Uint64", "Uintptr"} {
		I["sync/atomic.Load"+t] = atomicLoad
		I["sync/atomic.Store"+t] = atomicStore
		I["sync/atomic.Add"+t] = atomicAdd
		I["sync/atomic.CompareAndSwap"+t] = func(e *Engine, a []Value, pos token.Pos, fn *ssa.Function) Value {
			p := a[0].(*Ptr)
			cur := e.load(p, pos).(*Term)
			eq := tb.Eq(cur, a[1].(*Term))
			e.store(p, tb.Ite(eq, a[2].(*Term), cur), pos)
			return eq
		}
		// typed atomics: struct with field v (last field)
		field := func(e *Engine, p *Ptr, pos token.Pos) *Ptr {
			st := p.Alts[0]
			_ = st
			// find field named "v"
			return nil
		}
		_ = field
		tn := t
		vfield := func(e *Engine, recv Value, fn *ssa.Function, pos token.Pos) *Ptr {
			st := fn.Signature.Recv().Type().(*types.Pointer).Elem().Underlying().(*types.Struct)
			for i := 0; i < st.NumFields(); i++ {
				if st.Field(i).Name() == "v" {
					return e.extendPtr(recv.(*Ptr), PathEl{Idx: i}, pos)
				}
			}
			panic(e.unsupported("atomic.%s has no field v", tn))
		}
		I["(*sync/atomic."+t+").Load"] = func(e *Engine, a []Value, pos token.Pos, fn *ssa.Function) Value {
			return e.load(vfield(e, a[0], fn, pos), pos)
		}
		I["(*sync/atomic."+t+").Store"] = func(e *Engine, a []Value, pos token.Pos, fn *ssa.Function) Value {
			e.store(vfield(e, a[0], fn, pos), a[1], pos)
			return nil
		}
		I["(*sync/atomic."+t+").Add"] = func(e *Engine, a []Value, pos token.Pos, fn *ssa.Function) Value {
			p := vfield(e, a[0], fn, pos)
			n := tb.BVOp(OpAdd, e.load(p, pos).(*Term), a[1].(*Term))
			e.store(p, n, pos)
			return n
		}
		I["(*sync/atomic."+t+").CompareAndSwap"] = func(e *Engine, a []Value, pos token.Pos, fn *ssa.Function) Value {
			p := vfield(e, a[0], fn, pos)
			cur := e.load(p, pos).(*Term)
			eq := tb.Eq(cur, a[1].(*Term))
			e.store(p, tb.Ite(eq, a[2].(*Term), cur), pos)
			return eq
		}
	}
	I["(*sync/atomic.Bool).Load"] = func(e *Engine, a []Value, pos token.Pos, fn *ssa.Function) Value {
		k := e.ghostKey(a[0], "abool")
		if v, ok := e.ghost[k]; ok {
			return v
		}
		return tb.False
	}
	I["(*sync/atomic.Bool).Store"] = func(e *Engine, a []Value, pos token.Pos, fn *ssa.Function) Value {
		k := e.ghostKey(a[0], "abool")
		old, ok := e.ghost[k]
		if !ok {
			old = tb.False
		}
		e.ghost[k] = tb.Ite(e.G, a[1].(*Term), old)
		return nil
	}

	// ---- context ---------------------------------------------------------------------------
	I["context.Background"] = func(e *Engine, a []Value, pos token.Pos, fn *ssa.Function) Value {
		if e.bgCtx == nil {
			e.bgCtx = e.newCtx(nil, "background")
		}
		return e.ctxIface(e.bgCtx)
	}
	I["context.TODO"] = I["context.Background"]
	withCancel := func(e *Engine, a []Value, pos token.Pos, fn *ssa.Function) Value {
		parent := e.ctxObjOf(a[0])
		c := e.newCtx(parent, e.posStr(pos))
		if e.ctxChildren == nil {
			e.ctxChildren = map[*Object][]*Object{}
		}
		e.ctxChildren[parent] = append(e.ctxChildren[parent], c)
		cancel := &FuncV{[]FuncAlt{{G: tb.True, Builtin: "ctx.cancel", Recv: e.ptrTo(c)}}}
		return &TupleV{[]Value{e.ctxIface(c), cancel}}
	}
	I["context.WithCancel"] = withCancel
	I["context.WithTimeout"] = withCancel
	I["context.WithDeadline"] = withCancel
	I["context.WithValue"] = func(e *Engine, a []Value, pos token.Pos, fn *ssa.Function) Value { return a[0] }
	I["ctx.cancel"] = func(e *Engine, a []Value, pos token.Pos, fn *ssa.Function) Value {
		e.ctxCancel(e.ctxObjOf(a[0]))
		return nil
	}
	I["ctx.stop"] = func(e *Engine, a []Value, pos token.Pos, fn *ssa.Function) Value {
		if e.threads != nil {
			if s, ok := a[0].(*StrV); ok {
				return tb.Bool(e.threads.impl.stop(s.Alts[0].S))
			}
		}
		return tb.True
	}
	I["context.AfterFunc"] = func(e *Engine, a []Value, pos token.Pos, fn *ssa.Function) Value {
		c := e.ctxObjOf(a[0])
		if e.threads != nil {
			key := e.threads.impl.afterFunc(e, c, a[1].(*FuncV))
			return &FuncV{[]FuncAlt{{G: tb.True, Builtin: "ctx.stop", Recv: e.str(key)}}}
		}
		c.AfterFns = append(c.AfterFns, a[1])
		// already cancelled: runs immediately in its own goroutine
		if already := e.ctxCancelled(c); !already.IsFalse() {
			fv := a[1].(*FuncV)
			g := tb.And(e.G, already)
			if e.threads != nil {
				e.threads.spawnGuarded(e, g, func() { e.callFuncV(fv, nil, token.NoPos) }, "context.AfterFunc")
			} else {
				e.pending = append(e.pending, &PendingGo{G: g, Pos: "context.AfterFunc", Fn: func() { e.callFuncV(fv, nil, token.NoPos) }})
			}
		}
		return &FuncV{[]FuncAlt{{G: tb.True, Builtin: "ctx.stop", Recv: e.ptrTo(c)}}}
	}
	I["marker:ctx.Done"] = func(e *Engine, a []Value, pos token.Pos, fn *ssa.Function) Value {
		return e.ctxDone(e.ctxObjOf(a[0]))
	}
	I["marker:ctx.Err"] = func(e *Engine, a []Value, pos token.Pos, fn *ssa.Function) Value {
		c := e.ctxObjOf(a[0])
		errT := types.Universe.Lookup("error").Type()
		return e.iteVal(e.ctxCancelled(c), e.canceledErr(), e.zero(errT))
	}
	I["marker:ctx.Value"] = func(e *Engine, a []Value, pos token.Pos, fn *ssa.Function) Value {
		return e.zero(types.NewInterfaceType(nil, nil))
	}
	I["marker:ctx.Deadline"] = func(e *Engine, a []Value, pos token.Pos, fn *ssa.Function) Value {
		return &TupleV{[]Value{tb.Int(zeroInstant), tb.False}}
	}
	I["context.Cause"] = func(e *Engine, a []Value, pos token.Pos, fn *ssa.Function) Value {
		c := e.ctxObjOf(a[0])
		errT := types.Universe.Lookup("error").Type()
		return e.iteVal(e.ctxCancelled(c), e.canceledErr(), e.zero(errT))
	}
	I["marker:opaque.Error"] = func(e *Engine, a []Value, pos token.Pos, fn *ssa.Function) Value {
		p := a[0].(*Ptr)
		return e.str(e.errTexts[p.Alts[0].Obj])
	}
	I["marker:err.Error"] = I["marker:opaque.Error"]
	I["marker:err.Unwrap"] = func(e *Engine, a []Value, pos token.Pos, fn *ssa.Function) Value {
		return e.zero(types.Universe.Lookup("error").Type())
	}

	// ---- errors / fmt ------------------------------------------------------------------------
	I["fmt.Errorf"] = func(e *Engine, a []Value, pos token.Pos, fn *ssa.Function) Value {
		txt := "fmt.Errorf@" + e.posStr(pos)
		if s, ok := a[0].(*StrV); ok && len(s.Alts) == 1 && s.Alts[0].Sym == nil {
			txt = s.Alts[0].S
		}
		v := e.newErr(txt)
		// remember wrapped errors for errors.Is
		if sl, ok := a[1].(*SliceV); ok {
			for _, al := range sl.Alts {
				if al.Arr == nil {
					continue
				}
				for _, el := range al.Arr.E {
					if iv, ok := el.(*IfaceV); ok {
						e.wrapped[v.Alts[0].V.(*Ptr).Alts[0].Obj] = append(e.wrapped[v.Alts[0].V.(*Ptr).Alts[0].Obj], iv)
					}
				}
			}
		}
		return v
	}
	I["errors.New"] = func(e *Engine, a []Value, pos token.Pos, fn *ssa.Function) Value {
		txt := "errors.New@" + e.posStr(pos)
		if s, ok := a[0].(*StrV); ok && len(s.Alts) == 1 && s.Alts[0].Sym == nil {
			txt = s.Alts[0].S
		}
		return e.newErr(txt)
	}
	I["errors.Is"] = func(e *Engine, a []Value, pos token.Pos, fn *ssa.Function) Value {
		return e.errorsIs(a[0].(*IfaceV), a[1].(*IfaceV), 0)
	}
	I["errors.Join"] = func(e *Engine, a []Value, pos token.Pos, fn *ssa.Function) Value {
		return e.newErr("errors.Join@" + e.posStr(pos))
	}
	sprint := func(e *Engine, a []Value, pos token.Pos, fn *ssa.Function) Value {
		return e.str("<fmt@" + e.posStr(pos) + ">")
	}
	I["fmt.Sprintf"] = sprint
	I["fmt.Sprint"] = sprint
	I["fmt.Sprintln"] = sprint
	I["fmt.Println"] = noop
	I["fmt.Printf"] = noop
	I["fmt.Fprintf"] = noop
	I["fmt.Fprintln"] = noop
	I["strconv.Itoa"] = func(e *Engine, a []Value, pos token.Pos, fn *ssa.Function) Value {
		t := a[0].(*Term)
		if t.IsConst() {
			return e.str(fmt.Sprint(t.SignedVal()))
		}
		return e.str("<itoa>")
	}

	// ---- math ----------------------------------------------------------------------------------
	I["math/rand.Intn"] = func(e *Engine, a []Value, pos token.Pos, fn *ssa.Function) Value {
		n := a[0].(*Term)
		e.runtimePanic("rand.Intn: non-positive argument", pos, tb.Cmp(OpSLE, n, tb.Int(0)))
		if n.IsConst() && (n.C == 1 || int64(n.C) <= 0) {
			return tb.Int(0) // (non-positive: the path has panicked above; no range assumption that would falsify everything)
		}
		r := e.fresh("rand.Intn", "int64", BV64)
		if n.IsConst() {
			e.andAssume(tb.Cmp(OpSLE, tb.Int(0), r), tb.Cmp(OpSLT, r, n))
			if e.fixed == nil {
				tb.SetVarUB(r, n.C-1)
			}
		} else {
			e.andAssume(tb.Cmp(OpSLE, tb.Int(0), r), tb.Implies(e.G, tb.Cmp(OpSLT, r, n)))
		}
		return r
	}
	I["math/rand.Int63n"] = I["math/rand.Intn"]
	I["math/rand.Float64"] = func(e *Engine, a []Value, pos token.Pos, fn *ssa.Function) Value {
		r := e.fresh("rand.Float64", "float", F64)
		e.andAssume(tb.FPCmp(OpFLE, tb.FPConst(0, 64), r), tb.FPCmp(OpFLT, r, tb.FPConst(1, 64)))
		return r
	}
	I["math/rand.Int63"] = func(e *Engine, a []Value, pos token.Pos, fn *ssa.Function) Value {
		r := e.fresh("rand.Int63", "int64", BV64)
		e.andAssume(tb.Cmp(OpSLE, tb.Int(0), r))
		return r
	}
	I["math/rand.Uint64"] = func(e *Engine, a []Value, pos token.Pos, fn *ssa.Function) Value {
		return e.fresh("rand.Uint64", "int64", BV64)
	}
	I["math/rand.Shuffle"] = func(e *Engine, a []Value, pos token.Pos, fn *ssa.Function) Value {
		// Fisher-Yates as in math/rand: for i := n-1; i > 0; i-- { j := Intn(i+1); swap(i, j) }
		n := a[0].(*Term)
		if !n.IsConst() {
			panic(e.unsupported("rand.Shuffle with symbolic n"))
		}
		for i := int(n.C) - 1; i > 0; i-- {
			j := I["math/rand.Intn"](e, []Value{tb.Int(int64(i + 1))}, pos, nil)
			e.callFuncV(a[1].(*FuncV), []Value{tb.Int(int64(i)), j}, pos)
		}
		return nil
	}
	I["math/bits.Len64"] = func(e *Engine, a []Value, pos token.Pos, fn *ssa.Function) Value { return tb.Len64(a[0].(*Term)) }
	I["math/bits.Len"] = I["math/bits.Len64"]
	I["math/bits.Len32"] = func(e *Engine, a []Value, pos token.Pos, fn *ssa.Function) Value {
		return tb.Len64(tb.ZExt(a[0].(*Term), 64))
	}
	I["math.IsNaN"] = func(e *Engine, a []Value, pos token.Pos, fn *ssa.Function) Value { return tb.FPIsNaN(a[0].(*Term)) }
	I["math.IsInf"] = func(e *Engine, a []Value, pos token.Pos, fn *ssa.Function) Value {
		x := a[0].(*Term)
		sign := a[1].(*Term)
		inf := tb.FPIsInf(x)
		posI := tb.FPCmp(OpFLT, tb.FPConst(0, 64), x)
		return tb.And(inf, tb.Or(tb.Eq(sign, tb.Int(0)), tb.And(tb.Cmp(OpSLT, tb.Int(0), sign), posI), tb.And(tb.Cmp(OpSLT, sign, tb.Int(0)), tb.Not(posI))))
	}
	I["math.Inf"] = func(e *Engine, a []Value, pos token.Pos, fn *ssa.Function) Value {
		s := a[0].(*Term)
		return tb.Ite(tb.Cmp(OpSLE, tb.Int(0), s), tb.FPConst(math.Inf(1), 64), tb.FPConst(math.Inf(-1), 64))
	}
	I["math.NaN"] = func(e *Engine, a []Value, pos token.Pos, fn *ssa.Function) Value { return tb.FPConst(math.NaN(), 64) }
	conc1 := func(name string, f func(float64) float64) {
		I[name] = func(e *Engine, a []Value, pos token.Pos, fn *ssa.Function) Value {
			x := a[0].(*Term)
			if !x.IsConst() {
				panic(e.unsupported("%s on a symbolic argument", name))
			}
			return tb.FPConst(f(x.FPVal()), 64)
		}
	}
	conc1("math.Sqrt", math.Sqrt)
	conc1("math.Ceil", math.Ceil)
	conc1("math.Floor", math.Floor)
	conc1("math.Log", math.Log)
	conc1("math.Exp", math.Exp)
	I["math.Abs"] = func(e *Engine, a []Value, pos token.Pos, fn *ssa.Function) Value {
		x := a[0].(*Term)
		return tb.Ite(tb.FPCmp(OpFLT, x, tb.FPConst(0, 64)), tb.FPNeg(x), x)
	}
	I["math.Pow"] = func(e *Engine, a []Value, pos token.Pos, fn *ssa.Function) Value {
		x, y := a[0].(*Term), a[1].(*Term)
		if !x.IsConst() || !y.IsConst() {
			panic(e.unsupported("math.Pow on symbolic arguments"))
		}
		return tb.FPConst(math.Pow(x.FPVal(), y.FPVal()), 64)
	}
	I["math.Float64bits"] = func(e *Engine, a []Value, pos token.Pos, fn *ssa.Function) Value {
		x := a[0].(*Term)
		if x.IsConst() {
			return tb.BVConst(x.C, 64)
		}
		panic(e.unsupported("math.Float64bits on symbolic value"))
	}
	I["runtime.NumCPU"] = func(e *Engine, a []Value, pos token.Pos, fn *ssa.Function) Value { return tb.Int(2) }
	I["runtime.Gosched"] = noop
	I["crypto/sha256.Sum256"] = func(e *Engine, a []Value, pos token.Pos, fn *ssa.Function) Value {
		s := a[0].(*SliceV)
		var gs []*Term
		var vs []Value
		for _, al := range s.Alts {
			if tb.And(e.G, al.G).IsFalse() {
				continue
			}
			if al.Arr != nil && (!al.Len.IsConst() || !al.Off.IsConst()) {
				panic(e.unsupported("sha256 of input with symbolic length"))
			}
			n := 0
			if al.Arr != nil {
				n = int(al.Len.C)
			}
			buf := make([]byte, n)
			symbolic := false
			for i := 0; i < n; i++ {
				c := e.arrCells(al.Arr)[int(al.Off.C)+i].(*Term)
				if !c.IsConst() {
					symbolic = true
					break
				}
				buf[i] = byte(c.C)
			}
			if symbolic {
				// hash of symbolic bytes: an arbitrary digest (uninterpreted; functional consistency across calls is not modelled)
				e.note("sha256 of symbolic input: arbitrary digest")
				el := make([]Value, 32)
				for i := range el {
					el[i] = e.fresh("sha256", "byte", BV8)
				}
				gs = append(gs, al.G)
				vs = append(vs, &ArrayV{el})
				continue
			}
			h := sha256.Sum256(buf)
			el := make([]Value, 32)
			for i := range el {
				el[i] = tb.BVConst(uint64(h[i]), 8)
			}
			gs = append(gs, al.G)
			vs = append(vs, &ArrayV{el})
		}
		if len(vs) == 0 {
			return e.zero(fn.Signature.Results().At(0).Type())
		}
		return e.mergeMany(gs, vs)
	}

	// ---- cryptography and peer-ID parsing: uninterpreted, driven by outcome classes the harness registers with
	// vpCryptoSet (from_garbage, from_extractable, key_garbage, key_is_author, sig_valid). The algebraic contract:
	// the key bound to an author is K_author; Verify succeeds iff the key is K_author and the signature is valid.
	I["vp:vpCryptoSet"] = func(e *Engine, a []Value, pos token.Pos, fn *ssa.Function) Value {
		if e.crypto == nil {
			e.crypto = map[string]*Term{}
		}
		v := a[1].(*Term)
		if v.S.K != SBool {
			v = tb.Not(tb.Eq(v, tb.BVConst(0, v.S.W)))
		}
		e.crypto[e.constStr(a[0], "vpCryptoSet key")] = v
		return nil
	}
	cr := func(e *Engine, k string) *Term {
		if t, ok := e.crypto[k]; ok {
			return t
		}
		panic(e.unsupported("crypto outcome class %q not registered by the harness (vpCryptoSet)", k))
	}
	errT := types.Universe.Lookup("error").Type()
	pubkey := func(e *Engine, author *Term) Value {
		if e.keyAuthor == nil {
			e.keyAuthor = e.opaqueIfaceOf("pubkey", "K_author")
			e.keyOther = e.opaqueIfaceOf("pubkey", "K_other")
		}
		return e.iteVal(author, e.keyAuthor, e.keyOther)
	}
	I["github.com/libp2p/go-libp2p/core/peer.IDFromBytes"] = func(e *Engine, a []Value, pos token.Pos, fn *ssa.Function) Value {
		b := a[0].(*SliceV)
		fails := tb.Or(cr(e, "from_garbage"), tb.Eq(e.sliceLen(b), tb.Int(0)))
		id := e.bytesToString(b, pos)
		return &TupleV{[]Value{e.iteVal(fails, e.str(""), id), e.iteVal(fails, e.newErr("bad peer id"), e.zero(errT))}}
	}
	I["(github.com/libp2p/go-libp2p/core/peer.ID).ExtractPublicKey"] = func(e *Engine, a []Value, pos token.Pos, fn *ssa.Function) Value {
		ok := cr(e, "from_extractable")
		kt := fn.Signature.Results().At(0).Type()
		return &TupleV{[]Value{e.iteVal(ok, pubkey(e, tb.True), e.zero(kt)), e.iteVal(ok, e.zero(errT), e.newErr("no public key in peer id"))}}
	}
	I["github.com/libp2p/go-libp2p/core/crypto.UnmarshalPublicKey"] = func(e *Engine, a []Value, pos token.Pos, fn *ssa.Function) Value {
		bad := cr(e, "key_garbage")
		kt := fn.Signature.Results().At(0).Type()
		return &TupleV{[]Value{e.iteVal(bad, e.zero(kt), pubkey(e, cr(e, "key_is_author"))), e.iteVal(bad, e.newErr("bad key"), e.zero(errT))}}
	}
	I["(github.com/libp2p/go-libp2p/core/peer.ID).MatchesPublicKey"] = func(e *Engine, a []Value, pos token.Pos, fn *ssa.Function) Value {
		return e.valEq(a[1], pubkey(e, tb.True))
	}
	I["marker:pubkey.Verify"] = func(e *Engine, a []Value, pos token.Pos, fn *ssa.Function) Value {
		isAuthor := e.valEq(&IfaceV{[]IfaceAlt{{G: tb.True, T: e.marker("pubkey"), V: a[0]}}}, pubkey(e, tb.True))
		e.verifyCalls++
		// the signature verifies under the author's key iff sig_valid, under the OTHER key iff sig_by_other
		// (a forger can always sign with a key of its own)
		byOther := tb.False
		if t, ok := e.crypto["sig_by_other"]; ok {
			byOther = t
		}
		ok := tb.Ite(isAuthor, cr(e, "sig_valid"), byOther)
		// key types differ in HOW they report a mismatch: ed25519 returns (false, nil), RSA / ECDSA / secp256k1 (false, err);
		// the class is an outcome the harness may make symbolic ("sig_mismatch_is_error")
		if t, has := e.crypto["sig_mismatch_is_error"]; has {
			return &TupleV{[]Value{ok, e.iteVal(tb.And(tb.Not(ok), t), e.newErr("crypto: verification error"), e.zero(errT))}}
		}
		return &TupleV{[]Value{ok, e.zero(errT)}}
	}
	I["github.com/libp2p/go-libp2p/core/crypto.MarshalPublicKey"] = func(e *Engine, a []Value, pos token.Pos, fn *ssa.Function) Value {
		return &TupleV{[]Value{e.stringToBytes(e.str("KEY"), types.NewSlice(types.Typ[types.Uint8])), e.zero(errT)}}
	}

	I["github.com/libp2p/go-libp2p/core/record.ConsumeEnvelope"] = func(e *Engine, a []Value, pos token.Pos, fn *ssa.Function) Value {
		// signed envelopes are cryptography (uninterpreted). When the harness library of the repo package provides a Go
		// MODEL of the outcome classes (vpModel_ConsumeEnvelope: tagged test envelopes -> valid peer record for a stated
		// peer / valid envelope of another record type / invalid), that model is evaluated symbolically in its place; the
		// same tagged inputs are realised natively as really signed envelopes (vpEnvelope). Otherwise every envelope is
		// invalid.
		if pk := e.prog.ImportedPackage(e.repoPkgPrefix); pk != nil {
			if m := pk.Func("vpModel_ConsumeEnvelope"); m != nil {
				e.stubs["record.ConsumeEnvelope -> vpModel_ConsumeEnvelope"]++
				return e.CallFunction(m, a, nil)
			}
		}
		res := fn.Signature.Results()
		return &TupleV{[]Value{e.zero(res.At(0).Type()), e.zero(res.At(1).Type()), e.newErr("invalid envelope")}}
	}

	// ---- libp2p identity helpers (text only used for logging) -------------------------------------
	ident := func(e *Engine, a []Value, pos token.Pos, fn *ssa.Function) Value { return a[0] }
	I["(github.com/libp2p/go-libp2p/core/peer.ID).String"] = ident
	I["(github.com/libp2p/go-libp2p/core/peer.ID).ShortString"] = ident
	I["(github.com/libp2p/go-libp2p/core/peer.ID).Loggable"] = noop
	I["github.com/libp2p/go-libp2p/p2p/host/peerstore/pstoremem.NewAddrBook"] = noop

	// ---- shuffles: summarised as "some permutation" (vcheck selftest shows the real functions yield exactly the permutations)
	shuffle := func(e *Engine, a []Value, pos token.Pos, fn *ssa.Function) Value {
		e.permute(a[0].(*SliceV), pos)
		return nil
	}
	if os.Getenv("VERIF_REAL_SHUFFLE") == "" {
		I[e.repoPkgPrefix+".shufflePeers"] = shuffle
		I[e.repoPkgPrefix+".shuffleStrings"] = shuffle
		I[e.repoPkgPrefix+".shufflePeerInfo"] = shuffle
	}

	// ---- sort ----------------------------------------------------------------------------------
	I["sort.Slice"] = func(e *Engine, a []Value, pos token.Pos, fn *ssa.Function) Value {
		return e.sortSlice(a[0].(*IfaceV), a[1].(*FuncV), pos)
	}
	I["sort.SliceStable"] = I["sort.Slice"]
	I["sort.Strings"] = func(e *Engine, a []Value, pos token.Pos, fn *ssa.Function) Value {
		panic(e.unsupported("sort.Strings"))
	}
	// strings helpers on concrete strings
	str2 := func(name string, f func(a, b string) bool) {
		I[name] = func(e *Engine, a []Value, pos token.Pos, fn *ssa.Function) Value {
			x, y := a[0].(*StrV), a[1].(*StrV)
			r := tb.False
			for _, p := range x.Alts {
				for _, q := range y.Alts {
					if p.Sym != nil || q.Sym != nil {
						panic(e.unsupported("%s on symbolic strings", name))
					}
					if f(p.S, q.S) {
						r = tb.Or(r, tb.And(p.G, q.G))
					}
				}
			}
			return r
		}
	}
	str2("strings.HasPrefix", strings.HasPrefix)
	str2("strings.HasSuffix", strings.HasSuffix)
	str2("strings.Contains", strings.Contains)
	str2("strings.EqualFold", strings.EqualFold)
}

func (e *Engine) canceledErr() *IfaceV {
	if e.cancelErr == nil {
		e.cancelErr = e.opaqueIface("context canceled")
	}
	return e.cancelErr
}

func (e *Engine) newErr(txt string) *IfaceV {
	mt := e.marker("err")
	obj := e.newObj(OOpaque, mt, "err:"+txt)
	e.errTexts[obj] = txt
	return &IfaceV{[]IfaceAlt{{G: e.tb.True, T: mt, V: e.ptrTo(obj)}}}
}

func (e *Engine) errorsIs(err, target *IfaceV, depth int) *Term {
	tb := e.tb
	r := e.valEq(err, target)
	if depth > 4 {
		return r
	}
	for _, a := range err.Alts {
		if a.T == nil {
			continue
		}
		if _, ok := e.markerName(a.T); !ok {
			continue
		}
		p, ok := a.V.(*Ptr)
		if !ok || len(p.Alts) != 1 || p.Alts[0].Obj == nil {
			continue
		}
		for _, w := range e.wrapped[p.Alts[0].Obj] {
			r = tb.Or(r, tb.And(a.G, e.errorsIs(w, target, depth+1)))
		}
	}
	return r
}

// sortSlice: insertion sort driven by the real less closure (sort.Slice cannot be lowered: reflection).
func (e *Engine) sortSlice(x *IfaceV, less *FuncV, pos token.Pos) Value {
	tb := e.tb
	if len(x.Alts) != 1 {
		panic(e.unsupported("sort.Slice on interface union"))
	}
	s := x.Alts[0].V.(*SliceV)
	G0 := e.G
	for _, al := range s.Alts {
		if al.Arr == nil {
			continue
		}
		g := tb.And(G0, al.G)
		if g.IsFalse() {
			continue
		}
		e.G = g
		if !al.Off.IsConst() {
			panic(e.unsupported("sort.Slice with symbolic offset"))
		}
		off := int(al.Off.C)
		n := e.maxLen(al)
		// insertion sort: for i in 1..n-1: j=i; while j>0 && less(j, j-1): swap(j, j-1); j--
		// element positions beyond len are excluded by guards
		for i := 1; i < n; i++ {
			inRange := tb.Cmp(OpSLT, tb.Int(int64(i)), al.Len)
			if tb.And(e.G, inRange).IsFalse() {
				break
			}
			moving := inRange // the element inserted is still moving down
			for j := i; j > 0; j-- {
				if tb.And(e.G, moving).IsFalse() {
					break
				}
				saved := e.G
				e.G = tb.And(saved, moving)
				lt := e.callFuncV(less, []Value{tb.Int(int64(j)), tb.Int(int64(j - 1))}, pos).(*Term)
				e.G = saved
				sw := tb.And(moving, lt)
				if !sw.IsFalse() {
					a, b := al.Arr.E[off+j], al.Arr.E[off+j-1]
					gg := tb.And(e.G, sw)
					al.Arr.E[off+j] = e.iteVal(gg, b, a)
					al.Arr.E[off+j-1] = e.iteVal(gg, a, b)
				}
				moving = sw
			}
		}
	}
	e.G = G0
	return nil
}

// permute replaces the contents of a slice by an arbitrary permutation of them (fresh index variables).
func (e *Engine) permute(s *SliceV, pos token.Pos) {
	tb := e.tb
	if e.idShuffle {
		return
	}
	G0 := e.G
	for _, al := range s.Alts {
		if al.Arr == nil {
			continue
		}
		g := tb.And(G0, al.G)
		if g.IsFalse() {
			continue
		}
		n := e.maxLen(al)
		if n <= 1 {
			continue
		}
		if !al.Off.IsConst() {
			panic(e.unsupported("shuffle of a slice with symbolic offset"))
		}
		off := int(al.Off.C)
		old := make([]Value, n)
		copy(old, al.Arr.E[off:off+n])
		// pi[k] in [0,len), pairwise distinct for k < len
		pi := make([]*Term, n)
		for k := 0; k < n; k++ {
			pi[k] = e.fresh("perm", "int64", BV64)
			inLen := tb.Cmp(OpSLT, tb.Int(int64(k)), al.Len)
			e.andAssume(tb.Cmp(OpSLE, tb.Int(0), pi[k]), tb.Cmp(OpSLT, pi[k], tb.Int(int64(n))),
				tb.Implies(tb.And(g, inLen), tb.Cmp(OpSLT, pi[k], al.Len)))
			if e.fixed == nil {
				tb.SetVarUB(pi[k], uint64(n-1))
			}
			for m := 0; m < k; m++ {
				e.andAssume(tb.Implies(tb.And(g, inLen), tb.Not(tb.Eq(pi[k], pi[m]))))
			}
		}
		for k := 0; k < n; k++ {
			inLen := tb.Cmp(OpSLT, tb.Int(int64(k)), al.Len)
			gk := tb.And(g, inLen)
			if gk.IsFalse() {
				continue
			}
			nv := e.selectElem(old, pi[k])
			al.Arr.E[off+k] = e.iteVal(gk, nv, al.Arr.E[off+k])
		}
	}
}

func (e *Engine) opaqueIfaceOf(marker, tag string) *IfaceV {
	mt := e.marker(marker)
	obj := e.newObj(OOpaque, mt, tag)
	obj.Tag = tag
	e.errTexts[obj] = tag
	return &IfaceV{[]IfaceAlt{{G: e.tb.True, T: mt, V: e.ptrTo(obj)}}}
}
