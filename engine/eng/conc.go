package eng

import (
	"fmt"
	"go/token"
	"go/types"

	"golang.org/x/tools/go/ssa"
)

// ---------------------------------------------------------------------------------------------
// Channels (sequential mode)

func (e *Engine) newChan(t types.Type, cap int, site string) *ChanV {
	o := e.newObj(OChan, t, site)
	o.Cap = cap
	et := t.Underlying().(*types.Chan).Elem()
	o.Buf = make([]Value, cap)
	z := e.zero(et)
	for i := range o.Buf {
		o.Buf[i] = z
	}
	o.N = e.tb.Int(0)
	o.Closed = e.tb.False
	o.Bag = e.bagChans && cap > 1
	return &ChanV{[]RefAlt{{G: e.tb.True, Obj: o}}}
}

func (e *Engine) chanClosed(o *Object) *Term {
	if o.Ctx != nil {
		return e.ctxCancelled(o.Ctx)
	}
	return o.Closed
}

func (e *Engine) chanLen(c *ChanV) *Term {
	r := e.tb.Int(0)
	for i := len(c.Alts) - 1; i >= 0; i-- {
		if c.Alts[i].Obj != nil {
			r = e.tb.Ite(c.Alts[i].G, c.Alts[i].Obj.N, r)
		}
	}
	return r
}

func (e *Engine) sendEnabled(o *Object) *Term {
	tb := e.tb
	if o.Env != nil {
		return o.Env.SendEnabled()
	}
	if o.Ctx != nil {
		return tb.False
	}
	// sending on a closed channel panics, which counts as "proceeds"
	return tb.Or(tb.Cmp(OpSLT, o.N, tb.Int(int64(o.Cap))), o.Closed)
}

func (e *Engine) recvEnabled(o *Object) *Term {
	tb := e.tb
	if o.Env != nil {
		return o.Env.RecvEnabled()
	}
	if o.Ctx != nil {
		return e.ctxCancelled(o.Ctx)
	}
	r := tb.Or(tb.Cmp(OpSLT, tb.Int(0), o.N), o.Closed)
	if o.OfferG != nil {
		r = tb.Or(r, o.OfferG)
	}
	return r
}

// enqueue under the current guard (caller established that there is room).
func (e *Engine) enqueue(o *Object, v Value, pos token.Pos) {
	tb := e.tb
	if o.Env != nil {
		if o.Env.OnSend != nil {
			o.Env.OnSend(v)
		}
		return
	}
	e.runtimePanic("send on closed channel", pos, o.Closed)
	g := e.G
	for k := range o.Buf {
		gk := tb.And(g, tb.Eq(o.N, tb.Int(int64(k))))
		if !gk.IsFalse() {
			o.Buf[k] = e.iteVal(gk, v, o.Buf[k])
		}
	}
	o.N = tb.Ite(g, tb.BVOp(OpAdd, o.N, tb.Int(1)), o.N)
}

// dequeue under the current guard; returns value and ok.
func (e *Engine) dequeue(o *Object, et types.Type) (Value, *Term) {
	tb := e.tb
	if o.Env != nil {
		v := o.Env.RecvValue()
		return v, tb.True
	}
	if o.Ctx != nil {
		return e.zero(et), tb.False
	}
	g := e.G
	nonEmpty := tb.Cmp(OpSLT, tb.Int(0), o.N)
	z := e.zero(et)
	if o.OfferG != nil && !o.OfferG.IsFalse() {
		// a sender offered by the harness hands over its value when the buffer is empty
		take := tb.And(o.OfferG, tb.Not(nonEmpty))
		ov := o.OfferV
		o.OfferG = tb.And(o.OfferG, tb.Not(tb.And(g, take)))
		if o.Cap == 0 {
			return e.iteVal(take, ov, z), take
		}
		v, ok := e.dequeueBuf(o, et, tb.And(g, tb.Not(take)))
		return e.iteVal(take, ov, v), tb.Or(take, ok)
	}
	if o.Cap == 0 {
		return z, tb.False
	}
	return e.dequeueBuf(o, et, g)
}

func (e *Engine) dequeueBuf(o *Object, et types.Type, g *Term) (Value, *Term) {
	tb := e.tb
	nonEmpty := tb.Cmp(OpSLT, tb.Int(0), o.N)
	z := e.zero(et)
	if o.Cap == 0 {
		return z, tb.False
	}
	var val Value
	if o.Bag && o.Cap > 1 {
		// any queued element may be received (independent senders)
		pick := e.freshInt("bagrecv", 0, int64(o.Cap-1))
		e.addAssume(tb.Implies(nonEmpty, tb.Cmp(OpSLT, pick, o.N)))
		val = e.selectElem(o.Buf, pick)
		// remove element at pick: shift the tail
		gg := tb.And(g, nonEmpty)
		for k := 0; k < o.Cap-1; k++ {
			sh := tb.And(gg, tb.Cmp(OpSLE, pick, tb.Int(int64(k))))
			if !sh.IsFalse() {
				o.Buf[k] = e.iteVal(sh, o.Buf[k+1], o.Buf[k])
			}
		}
		o.N = tb.Ite(gg, tb.BVOp(OpSub, o.N, tb.Int(1)), o.N)
		return e.iteVal(nonEmpty, val, z), nonEmpty
	}
	val = o.Buf[0]
	gg := tb.And(g, nonEmpty)
	if !gg.IsFalse() {
		for k := 0; k < o.Cap-1; k++ {
			o.Buf[k] = e.iteVal(gg, o.Buf[k+1], o.Buf[k])
		}
		o.N = tb.Ite(gg, tb.BVOp(OpSub, o.N, tb.Int(1)), o.N)
	}
	return e.iteVal(nonEmpty, val, z), nonEmpty
}

func (e *Engine) hasPending() bool {
	for _, p := range e.pending {
		if !p.Done {
			return true
		}
	}
	return false
}

func (e *Engine) fireAllPending() {
	for i := 0; i < len(e.pending); i++ {
		e.firePendingQuiet(i)
	}
}

// firePendingQuiet runs a parked goroutine; a goroutine that blocks simply stays parked there.
func (e *Engine) firePendingQuiet(i int) {
	c := &Catcher{PanicG: e.tb.False, BlockG: e.tb.False, CatchBlock: true}
	e.catchers = append(e.catchers, c)
	e.firePending(i)
	e.catchers = e.catchers[:len(e.catchers)-1]
}

func (e *Engine) chanSend(c *ChanV, v Value, pos token.Pos) {
	tb := e.tb
	if e.threads != nil {
		e.threads.chanSend(e, c, v, pos)
		return
	}
	G0 := e.G
	exit := tb.False
	for _, a := range c.Alts {
		g := tb.And(G0, a.G)
		if g.IsFalse() {
			continue
		}
		e.G = g
		if a.Obj == nil {
			e.wouldBlock("send on nil channel", pos, tb.True)
			continue
		}
		en := e.sendEnabled(a.Obj)
		if !en.IsTrue() && e.hasPending() {
			e.fireAllPending()
			en = e.sendEnabled(a.Obj)
		}
		e.wouldBlock("channel send may block", pos, tb.Not(en))
		if !e.G.IsFalse() {
			e.enqueue(a.Obj, v, pos)
		}
		exit = tb.Or(exit, e.G)
	}
	e.G = exit
}

func (e *Engine) chanRecv(c *ChanV, et types.Type, pos token.Pos) (Value, *Term) {
	tb := e.tb
	if e.threads != nil {
		return e.threads.chanRecv(e, c, et, pos)
	}
	G0 := e.G
	exit := tb.False
	var gs []*Term
	var vs []Value
	var oks []Value
	for _, a := range c.Alts {
		g := tb.And(G0, a.G)
		if g.IsFalse() {
			continue
		}
		e.G = g
		if a.Obj == nil {
			e.wouldBlock("receive on nil channel", pos, tb.True)
			continue
		}
		en := e.recvEnabled(a.Obj)
		if (!en.IsTrue() || a.Obj.Bag) && e.hasPending() {
			// (bag channels: the parked producers run before the collector collects, whatever is already queued — the same
			// schedule in symbolic and in concrete re-execution; the ORDER of their results stays a choice)
			e.fireAllPending()
			en = e.recvEnabled(a.Obj)
		}
		e.wouldBlock("channel receive may block", pos, tb.Not(en))
		if e.G.IsFalse() {
			continue
		}
		v, ok := e.dequeue(a.Obj, et)
		gs = append(gs, a.G)
		vs = append(vs, v)
		oks = append(oks, ok)
		exit = tb.Or(exit, e.G)
	}
	e.G = exit
	if len(vs) == 0 {
		return e.zero(et), tb.False
	}
	return e.mergeMany(gs, vs), e.mergeMany(gs, oks).(*Term)
}

func (e *Engine) chanClose(c *ChanV, pos token.Pos) {
	tb := e.tb
	nilG := tb.False
	for _, a := range c.Alts {
		if a.Obj == nil {
			nilG = tb.Or(nilG, a.G)
		}
	}
	e.runtimePanic("close of nil channel", pos, nilG)
	for _, a := range c.Alts {
		if a.Obj == nil {
			continue
		}
		g := tb.And(e.G, a.G)
		if g.IsFalse() {
			continue
		}
		e.runtimePanic("close of closed channel", pos, tb.And(a.G, a.Obj.Closed))
		a.Obj.Closed = tb.Or(a.Obj.Closed, tb.And(e.G, a.G))
	}
}

// selectStmt evaluates a select in sequential mode (channel operands may be unions of channels).
func (e *Engine) selectStmt(fr *Frame, x *ssa.Select) Value {
	tb := e.tb
	if e.threads != nil {
		return e.threads.selectStmt(e, fr, x)
	}
	n := len(x.States)
	type chAlt struct {
		g   *Term
		obj *Object
	}
	type st struct {
		alts []chAlt
		send Value
		en   *Term
		et   types.Type
	}
	sts := make([]st, n)
	compute := func() {
		for i, s := range x.States {
			cv := e.operand(fr, s.Chan).(*ChanV)
			sts[i].et = s.Chan.Type().Underlying().(*types.Chan).Elem()
			sts[i].alts = nil
			en := tb.False
			for _, a := range cv.Alts {
				if a.Obj == nil || tb.And(e.G, a.G).IsFalse() {
					continue
				}
				sts[i].alts = append(sts[i].alts, chAlt{a.G, a.Obj})
				if s.Dir == types.SendOnly {
					en = tb.Or(en, tb.And(a.G, e.sendEnabled(a.Obj)))
				} else {
					en = tb.Or(en, tb.And(a.G, e.recvEnabled(a.Obj)))
				}
			}
			sts[i].en = en
			if s.Dir == types.SendOnly {
				sts[i].send = e.operand(fr, s.Send)
			}
		}
	}
	compute()
	anyEnabled := func() *Term {
		r := tb.False
		for i := range sts {
			r = tb.Or(r, sts[i].en)
		}
		return r
	}
	anyEn := anyEnabled()
	if x.Blocking && !anyEn.IsTrue() && e.hasPending() {
		e.fireAllPending()
		compute()
		anyEn = anyEnabled()
	}
	if x.Blocking {
		e.wouldBlock("select may block", x.Pos(), tb.Not(anyEn))
	}
	// choose among enabled cases
	sel := make([]*Term, n)
	nPossible := 0
	for i := range sts {
		if !sts[i].en.IsFalse() {
			nPossible++
		}
	}
	if nPossible <= 1 {
		for i := range sts {
			sel[i] = sts[i].en
		}
	} else {
		pick := e.freshInt("select", 0, int64(n-1))
		enPick := tb.False
		for i := range sts {
			enPick = tb.Or(enPick, tb.And(tb.Eq(pick, tb.Int(int64(i))), sts[i].en))
		}
		noLower := tb.True
		for i := range sts {
			first := tb.And(sts[i].en, noLower)
			sel[i] = tb.And(sts[i].en, tb.Or(tb.Eq(pick, tb.Int(int64(i))), tb.And(tb.Not(enPick), first)))
			noLower = tb.And(noLower, tb.Not(sts[i].en))
		}
	}
	G0 := e.G
	idx := tb.Int(-1)
	recvOk := tb.False
	results := make([]Value, 0, n)
	exit := tb.False
	if !x.Blocking {
		exit = tb.And(G0, tb.Not(anyEn))
	}
	for i, s := range x.States {
		var rv Value
		if s.Dir != types.SendOnly {
			rv = e.zero(sts[i].et)
		}
		for _, a := range sts[i].alts {
			ga := tb.And(sel[i], a.g)
			g := tb.And(G0, ga)
			if g.IsFalse() {
				continue
			}
			e.G = g
			if s.Dir == types.SendOnly {
				e.enqueue(a.obj, sts[i].send, s.Pos)
			} else {
				v, ok := e.dequeue(a.obj, sts[i].et)
				rv = e.iteVal(ga, v, rv)
				recvOk = tb.Ite(ga, ok, recvOk)
			}
			exit = tb.Or(exit, e.G)
		}
		idx = tb.Ite(sel[i], tb.Int(int64(i)), idx)
		if s.Dir != types.SendOnly {
			results = append(results, rv)
		}
	}
	e.G = exit
	out := []Value{idx, recvOk}
	out = append(out, results...)
	return &TupleV{out}
}

// ---------------------------------------------------------------------------------------------
// Contexts (intrinsic)

func (e *Engine) newCtx(parent *Object, tag string) *Object {
	o := e.newObj(OCtx, e.marker("ctx"), tag)
	o.Cancelled = e.tb.False
	o.Parent = parent
	return o
}

func (e *Engine) ctxCancelled(o *Object) *Term {
	r := o.Cancelled
	for p := o.Parent; p != nil; p = p.Parent {
		r = e.tb.Or(r, p.Cancelled)
	}
	return r
}

func (e *Engine) ctxIface(o *Object) *IfaceV {
	return &IfaceV{[]IfaceAlt{{G: e.tb.True, T: e.marker("ctx"), V: e.ptrTo(o)}}}
}

func (e *Engine) ctxObjOf(v Value) *Object {
	switch x := v.(type) {
	case *IfaceV:
		var found *Object
		for _, a := range x.Alts {
			if a.T == nil {
				continue
			}
			if e.tb.And(e.G, a.G).IsFalse() {
				continue
			}
			if _, ok := e.markerName(a.T); !ok {
				panic(e.unsupported("context value of non-intrinsic type %v", a.T))
			}
			o := e.ctxObjOf(a.V)
			if found != nil && found != o {
				panic(e.unsupported("union of contexts"))
			}
			found = o
		}
		if found == nil {
			panic(e.unsupported("nil context"))
		}
		return found
	case *Ptr:
		if len(x.Alts) == 1 && x.Alts[0].Obj != nil && x.Alts[0].Obj.Kind == OCtx {
			return x.Alts[0].Obj
		}
	}
	panic(e.unsupported("not a context: %T", v))
}

func (e *Engine) ctxDone(o *Object) *ChanV {
	// one done-channel object per context
	key := fmt.Sprintf("ctxdone:%d", o.ID)
	if d, ok := e.doneChans[key]; ok {
		return &ChanV{[]RefAlt{{G: e.tb.True, Obj: d}}}
	}
	d := e.newObj(OChan, types.NewChan(types.RecvOnly, types.NewStruct(nil, nil)), "ctx.Done")
	d.Ctx = o
	d.N = e.tb.Int(0)
	d.Closed = e.tb.False
	if e.doneChans == nil {
		e.doneChans = map[string]*Object{}
	}
	e.doneChans[key] = d
	return &ChanV{[]RefAlt{{G: e.tb.True, Obj: d}}}
}

func (e *Engine) ctxCancel(o *Object) {
	if e.threads != nil {
		ti := e.threads.impl
		th := ti.curThr()
		th.op = pendingOp{}
		ti.schedule(th) // visible operation
		o.Cancelled = e.tb.True
		ti.onCancel(e, o)
		return
	}
	g := e.tb.And(e.G, e.tb.Not(e.ctxCancelled(o)))
	o.Cancelled = e.tb.Or(o.Cancelled, e.G)
	// AfterFunc callbacks become parked goroutines
	e.fireAfterFuncs(o, g)
}

func (e *Engine) fireAfterFuncs(o *Object, g *Term) {
	if g.IsFalse() {
		return
	}
	for _, f := range o.AfterFns {
		fv := f.(*FuncV)
		gg := g
		if e.threads != nil {
			e.threads.spawn(e, func() { e.callFuncV(fv, nil, token.NoPos) }, "context.AfterFunc")
			continue
		}
		e.pending = append(e.pending, &PendingGo{G: gg, Pos: "context.AfterFunc", Fn: func() { e.callFuncV(fv, nil, token.NoPos) }})
	}
	for _, ch := range e.ctxChildren[o] {
		e.fireAfterFuncs(ch, e.tb.And(g, e.tb.Not(ch.Cancelled)))
	}
}
