package eng

import (
	"bytes"
	"crypto/sha1"
	"encoding/json"
	"fmt"
	"os"
	"os/exec"
	"path/filepath"
	"strings"
	"sync"
	"time"
)

// ReplayFile is the on-disk counterexample / sample: values of the harness's nondet variables.
type ReplayFile struct {
	Harness  string            `json:"harness"`
	Property string            `json:"property"`
	Tier     string            `json:"tier"`
	Values   map[string]uint64 `json:"values"`
	Pretty   map[string]string `json:"pretty,omitempty"`
	Failed   map[string]string `json:"failed,omitempty"`
	Expect   string            `json:"expect,omitempty"` // "fail:<label>" or "cover:<label>"
}

func WriteReplay(dir string, rf *ReplayFile) (string, error) {
	os.MkdirAll(dir, 0o755)
	b, _ := json.MarshalIndent(rf, "", " ")
	h := sha1.Sum(b)
	p := filepath.Join(dir, fmt.Sprintf("%s-%x.json", rf.Harness, h[:5]))
	return p, os.WriteFile(p, b, 0o644)
}

type ReplayOutcome struct {
	Failed   []string // labels of failed assertions (VPFAIL lines)
	Panicked string
	Covered  map[string]bool
	AssumeViolated bool
	Output   string
	OK       bool // the go test process ran the harness
	Observed []string
}

// NativeReplay compiles the package under test with the harness overlay and runs the harnesses natively
// with the recorded values. One go test invocation handles several replay files of the same package.
func NativeReplay(l *Loaded, pkgKey string, files []string, timeout time.Duration) (map[string]*ReplayOutcome, error) {
	tmp, err := os.MkdirTemp("", "vcheck-replay-")
	if err != nil {
		return nil, err
	}
	defer os.RemoveAll(tmp)
	// generated driver: table of harness functions
	var sb strings.Builder
	pkgName := pkgKey
	sb.WriteString("//go:build verif\n\npackage " + pkgName + "\n\nfunc init() {\n")
	for _, h := range l.Harnesses {
		if h.PkgKey == pkgKey {
			fmt.Fprintf(&sb, "\tvpHarnesses[%q] = %s\n", h.Name, h.Name)
		}
	}
	sb.WriteString("}\n")
	ov := map[string]string{}
	write := func(virtual string, content []byte) error {
		real := filepath.Join(tmp, fmt.Sprintf("f%d_%s", len(ov), filepath.Base(virtual)))
		if err := os.WriteFile(real, content, 0o644); err != nil {
			return err
		}
		ov[virtual] = real
		return nil
	}
	sub := pkgDirs[pkgKey]
	for v, c := range l.Overlay {
		if err := write(v, c); err != nil {
			return nil, err
		}
	}
	if err := write(filepath.Join(l.RepoDir, sub, "zz_verif_table.go"), []byte(sb.String())); err != nil {
		return nil, err
	}
	drv, err := os.ReadFile(filepath.Join(l.HarnDir, "rt", "driver_test.go.txt"))
	if err != nil {
		return nil, err
	}
	if err := write(filepath.Join(l.RepoDir, sub, "zz_verif_driver_test.go"), []byte(strings.Replace(string(drv), "package PKG", "package "+pkgName, 1))); err != nil {
		return nil, err
	}
	ovj, _ := json.Marshal(map[string]interface{}{"Replace": ov})
	ovPath := filepath.Join(tmp, "overlay.json")
	os.WriteFile(ovPath, ovj, 0o644)
	outDir := filepath.Join(tmp, "out")
	os.MkdirAll(outDir, 0o755)
	dir := filepath.Join(l.RepoDir, sub)
	// the test binary is built once; every replay file then runs in a process of its own, so that a harness which leaves
	// a goroutine blocked for good (the deadlock detector of the synctest bubble then aborts the process) cannot take
	// the other replays down with it
	bin := filepath.Join(tmp, "replay.test")
	build := exec.Command(filepath.Join(GoBin, "go"), "test", "-c", "-o", bin, "-tags", "verif", "-vet=off", "-overlay", ovPath, ".")
	build.Dir = dir
	build.Env = append(GoEnv(), "GOCACHE="+goCache())
	var bbuf bytes.Buffer
	build.Stdout = &bbuf
	build.Stderr = &bbuf
	berr := build.Run()
	outs := make([]string, len(files))
	if berr != nil {
		for i := range outs {
			outs[i] = "build of the replay binary failed: " + tail(bbuf.String(), 3000)
		}
	} else {
		sem := make(chan struct{}, 8)
		var wg sync.WaitGroup
		for i, f := range files {
			wg.Add(1)
			go func(i int, f string) {
				defer wg.Done()
				sem <- struct{}{}
				defer func() { <-sem }()
				cmd := exec.Command(bin, "-test.run", "^TestVerifReplay$", "-test.count=1", "-test.timeout", fmt.Sprintf("%ds", int(timeout.Seconds())))
				cmd.Dir = dir
				cmd.Env = append(GoEnv(), "VERIF_REPLAY="+f, "VERIF_REPLAY_OUT="+outDir)
				var buf bytes.Buffer
				cmd.Stdout = &buf
				cmd.Stderr = &buf
				cmd.Run()
				outs[i] = buf.String()
			}(i, f)
		}
		wg.Wait()
	}
	res := map[string]*ReplayOutcome{}
	for i, f := range files {
		ro := &ReplayOutcome{Covered: map[string]bool{}, Output: tail(outs[i], 3000)}
		res[f] = ro
		b, err := os.ReadFile(filepath.Join(outDir, filepath.Base(f)+".out"))
		if err != nil {
			continue
		}
		var o struct {
			Failed   []string `json:"failed"`
			Panicked string   `json:"panicked"`
			Covered  []string `json:"covered"`
			Observed []string `json:"observed"`
			AssumeViolated bool `json:"assume_violated"`
			Done     bool     `json:"done"`
		}
		if json.Unmarshal(b, &o) != nil {
			continue
		}
		ro.OK = true
		ro.Failed, ro.Panicked, ro.AssumeViolated = o.Failed, o.Panicked, o.AssumeViolated
		ro.Observed = o.Observed
		for _, c := range o.Covered {
			ro.Covered[c] = true
		}
		if !o.Done && ro.Panicked == "" {
			ro.Panicked = "harness did not finish (deadlock or timeout)"
		}
	}
	return res, nil
}

func goCache() string {
	if c := os.Getenv("VERIF_GOCACHE"); c != "" {
		return c
	}
	home, _ := os.UserCacheDir()
	if home == "" {
		home = os.TempDir()
	}
	return filepath.Join(home, "go-build")
}

func tail(s string, n int) string {
	if len(s) <= n {
		return s
	}
	return s[len(s)-n:]
}
