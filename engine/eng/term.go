// Package eng is symgo: a guarded symbolic evaluator for go/ssa that emits SMT-LIB2.
package eng

import (
	"fmt"
	"math"
	"math/bits"
	"sort"
	"strings"
)

// ---------------------------------------------------------------------------------------------
// Sorts and terms

type SortKind uint8

const (
	SBool SortKind = iota
	SBV
	SFP
)

type Sort struct {
	K SortKind
	W int // BV width, or FP total width (32/64)
}

var (
	BoolSort = Sort{SBool, 0}
	BV64     = Sort{SBV, 64}
	BV32     = Sort{SBV, 32}
	BV8      = Sort{SBV, 8}
	F64      = Sort{SFP, 64}
	F32      = Sort{SFP, 32}
)

func BV(w int) Sort { return Sort{SBV, w} }

func (s Sort) String() string {
	switch s.K {
	case SBool:
		return "Bool"
	case SBV:
		return fmt.Sprintf("(_ BitVec %d)", s.W)
	default:
		if s.W == 32 {
			return "(_ FloatingPoint 8 24)"
		}
		return "(_ FloatingPoint 11 53)"
	}
}

type Op uint8

const (
	OpConst Op = iota
	OpVar
	OpNot
	OpAnd
	OpOr
	OpIte
	OpEq
	// BV
	OpAdd
	OpSub
	OpMul
	OpUDiv
	OpSDiv
	OpURem
	OpSRem
	OpBAnd
	OpBOr
	OpBXor
	OpBNot
	OpNeg
	OpShl
	OpLShr
	OpAShr
	OpULT
	OpULE
	OpSLT
	OpSLE
	OpExtract // I=hi, J=lo
	OpZExt    // to sort width
	OpSExt
	OpConcat
	// FP
	OpFAdd
	OpFSub
	OpFMul
	OpFDiv
	OpFNeg
	OpFLT
	OpFLE
	OpFEQ // IEEE equality
	OpFIsNaN
	OpFIsInf
	OpSToF // signed bv -> fp
	OpUToF
	OpFToS // fp -> signed bv (RTZ)
	OpFToU
	OpFToF // fp -> fp other width
	OpFBits // fp -> bv (IEEE bits) (rare)
)

var opNames = map[Op]string{
	OpNot: "not", OpAnd: "and", OpOr: "or", OpIte: "ite", OpEq: "=",
	OpAdd: "bvadd", OpSub: "bvsub", OpMul: "bvmul", OpUDiv: "bvudiv", OpSDiv: "bvsdiv", OpURem: "bvurem", OpSRem: "bvsrem",
	OpBAnd: "bvand", OpBOr: "bvor", OpBXor: "bvxor", OpBNot: "bvnot", OpNeg: "bvneg", OpShl: "bvshl", OpLShr: "bvlshr", OpAShr: "bvashr",
	OpULT: "bvult", OpULE: "bvule", OpSLT: "bvslt", OpSLE: "bvsle", OpConcat: "concat",
	OpFAdd: "fp.add RNE", OpFSub: "fp.sub RNE", OpFMul: "fp.mul RNE", OpFDiv: "fp.div RNE", OpFNeg: "fp.neg",
	OpFLT: "fp.lt", OpFLE: "fp.leq", OpFEQ: "fp.eq", OpFIsNaN: "fp.isNaN", OpFIsInf: "fp.isInfinite",
}

type Term struct {
	ID   int
	Op   Op
	S    Sort
	Args []*Term
	C    uint64 // constant payload (bool: 0/1; bv: value; fp: IEEE bits)
	Name string // variable name
	I, J int    // extract
	hasFP int8  // 0 unknown, 1 no, 2 yes
}

func (t *Term) IsConst() bool { return t.Op == OpConst }
func (t *Term) IsTrue() bool  { return t.Op == OpConst && t.S.K == SBool && t.C == 1 }
func (t *Term) IsFalse() bool { return t.Op == OpConst && t.S.K == SBool && t.C == 0 }

// HasFPOp reports whether the DAG contains an FP arithmetic operation (routes the query to cvc5).
func (t *Term) HasFPOp() bool {
	if t.hasFP != 0 {
		return t.hasFP == 2
	}
	r := false
	switch t.Op {
	case OpFAdd, OpFSub, OpFMul, OpFDiv, OpSToF, OpUToF, OpFToS, OpFToU, OpFToF:
		r = true
	}
	if !r {
		for _, a := range t.Args {
			if a.HasFPOp() {
				r = true
				break
			}
		}
	}
	if r {
		t.hasFP = 2
	} else {
		t.hasFP = 1
	}
	return r
}

type termKey struct {
	op   Op
	s    Sort
	c    uint64
	name string
	i, j int
	a0, a1, a2 int
	rest string
}

// TB is the term builder (hash-consing + local simplification).
type TB struct {
	tab   map[termKey]*Term
	next  int
	True  *Term
	False *Term
	Vars  []*Term
	ub    map[int]uint64
	lb    map[int]uint64
	varUB map[int]uint64
}

func NewTB() *TB {
	tb := &TB{tab: map[termKey]*Term{}}
	tb.True = tb.mk(&Term{Op: OpConst, S: BoolSort, C: 1})
	tb.False = tb.mk(&Term{Op: OpConst, S: BoolSort, C: 0})
	return tb
}

func (tb *TB) mk(t *Term) *Term {
	k := termKey{op: t.Op, s: t.S, c: t.C, name: t.Name, i: t.I, j: t.J, a0: -1, a1: -1, a2: -1}
	switch len(t.Args) {
	case 0:
	case 1:
		k.a0 = t.Args[0].ID
	case 2:
		k.a0, k.a1 = t.Args[0].ID, t.Args[1].ID
	case 3:
		k.a0, k.a1, k.a2 = t.Args[0].ID, t.Args[1].ID, t.Args[2].ID
	default:
		var sb strings.Builder
		for _, a := range t.Args {
			fmt.Fprintf(&sb, "%d,", a.ID)
		}
		k.rest = sb.String()
	}
	if x, ok := tb.tab[k]; ok {
		return x
	}
	t.ID = tb.next
	tb.next++
	tb.tab[k] = t
	return t
}

func (tb *TB) NumTerms() int { return tb.next }

func mask(w int) uint64 {
	if w >= 64 {
		return ^uint64(0)
	}
	return (uint64(1) << uint(w)) - 1
}

func (tb *TB) Bool(b bool) *Term {
	if b {
		return tb.True
	}
	return tb.False
}

func (tb *TB) BVConst(v uint64, w int) *Term {
	return tb.mk(&Term{Op: OpConst, S: BV(w), C: v & mask(w)})
}
func (tb *TB) Int(v int64) *Term { return tb.BVConst(uint64(v), 64) }

func (tb *TB) FPConst(f float64, w int) *Term {
	if w == 32 {
		return tb.mk(&Term{Op: OpConst, S: F32, C: uint64(math.Float32bits(float32(f)))})
	}
	return tb.mk(&Term{Op: OpConst, S: F64, C: math.Float64bits(f)})
}

func (t *Term) FPVal() float64 {
	if t.S.W == 32 {
		return float64(math.Float32frombits(uint32(t.C)))
	}
	return math.Float64frombits(t.C)
}

func (tb *TB) Var(name string, s Sort) *Term {
	k := termKey{op: OpVar, s: s, name: name, a0: -1, a1: -1, a2: -1}
	if x, ok := tb.tab[k]; ok {
		return x
	}
	t := tb.mk(&Term{Op: OpVar, S: s, Name: name})
	tb.Vars = append(tb.Vars, t)
	return t
}

// SignedVal returns the constant as a signed integer of its width.
func (t *Term) SignedVal() int64 {
	w := t.S.W
	v := t.C
	if w < 64 && v&(1<<uint(w-1)) != 0 {
		v |= ^mask(w)
	}
	return int64(v)
}

// ---------------------------------------------------------------------------------------------
// Boolean layer

func (tb *TB) Not(a *Term) *Term {
	switch {
	case a.IsTrue():
		return tb.False
	case a.IsFalse():
		return tb.True
	case a.Op == OpNot:
		return a.Args[0]
	}
	return tb.mk(&Term{Op: OpNot, S: BoolSort, Args: []*Term{a}})
}

// eqConstLit: if t is (= x c) with c const, returns x, c.
func eqConstLit(t *Term) (*Term, *Term) {
	if t.Op == OpEq && t.Args[0].S.K == SBV {
		if t.Args[1].IsConst() {
			return t.Args[0], t.Args[1]
		}
		if t.Args[0].IsConst() {
			return t.Args[1], t.Args[0]
		}
	}
	return nil, nil
}

func (tb *TB) And(xs ...*Term) *Term {
	// fast paths
	if len(xs) == 2 {
		a, b := xs[0], xs[1]
		if a.IsTrue() {
			return b
		}
		if b.IsTrue() {
			return a
		}
		if a.IsFalse() || b.IsFalse() {
			return tb.False
		}
		if a == b {
			return a
		}
	}
	var lits []*Term
	seen := map[int]bool{}
	var add func(t *Term) bool
	add = func(t *Term) bool {
		if t.IsTrue() {
			return true
		}
		if t.IsFalse() {
			return false
		}
		if t.Op == OpAnd {
			for _, a := range t.Args {
				if !add(a) {
					return false
				}
			}
			return true
		}
		if seen[t.ID] {
			return true
		}
		seen[t.ID] = true
		lits = append(lits, t)
		return true
	}
	for _, x := range xs {
		if !add(x) {
			return tb.False
		}
	}
	// complement detection and eq-const reasoning
	eqc := map[int]*Term{}
	for _, l := range lits {
		if l.Op == OpNot {
			if seen[l.Args[0].ID] {
				return tb.False
			}
		}
		if x, c := eqConstLit(l); x != nil {
			if p, ok := eqc[x.ID]; ok && p != c {
				return tb.False
			}
			eqc[x.ID] = c
		}
	}
	if len(eqc) > 0 {
		out := lits[:0]
		for _, l := range lits {
			if l.Op == OpNot {
				if x, c := eqConstLit(l.Args[0]); x != nil {
					if p, ok := eqc[x.ID]; ok && p != c {
						continue // implied
					}
				}
			}
			out = append(out, l)
		}
		lits = out
	}
	// absorption: a ∧ (a ∨ b) = a ;  a ∧ (¬a ∨ b) = a ∧ b   (¬(x∧y) is viewed as ¬x ∨ ¬y)
	if len(lits) > 1 {
		changed := false
		for i, l := range lits {
			ds := tb.disjuncts(l)
			if ds == nil {
				continue
			}
			drop := false
			var keep []*Term
			for _, d := range ds {
				if seen[d.ID] {
					drop = true
					break
				}
				nd := tb.Not(d)
				if seen[nd.ID] {
					continue
				}
				keep = append(keep, d)
			}
			if drop {
				lits[i] = tb.True
				changed = true
			} else if len(keep) != len(ds) {
				lits[i] = tb.Or(keep...)
				changed = true
			}
		}
		if changed {
			return tb.And(lits...)
		}
	}
	switch len(lits) {
	case 0:
		return tb.True
	case 1:
		return lits[0]
	}
	sort.Slice(lits, func(i, j int) bool { return lits[i].ID < lits[j].ID })
	return tb.mk(&Term{Op: OpAnd, S: BoolSort, Args: append([]*Term(nil), lits...)})
}

func (tb *TB) Or(xs ...*Term) *Term {
	if len(xs) == 2 {
		a, b := xs[0], xs[1]
		if a.IsFalse() {
			return b
		}
		if b.IsFalse() {
			return a
		}
		if a.IsTrue() || b.IsTrue() {
			return tb.True
		}
		if a == b {
			return a
		}
	}
	var lits []*Term
	seen := map[int]bool{}
	var add func(t *Term) bool
	add = func(t *Term) bool {
		if t.IsFalse() {
			return true
		}
		if t.IsTrue() {
			return false
		}
		if t.Op == OpOr {
			for _, a := range t.Args {
				if !add(a) {
					return false
				}
			}
			return true
		}
		if seen[t.ID] {
			return true
		}
		seen[t.ID] = true
		lits = append(lits, t)
		return true
	}
	for _, x := range xs {
		if !add(x) {
			return tb.True
		}
	}
	for _, l := range lits {
		if l.Op == OpNot && seen[l.Args[0].ID] {
			return tb.True
		}
	}
	// (a ∧ b) ∨ (a ∧ ¬b) = a   (common after merging both sides of a branch)
	if len(lits) == 2 && lits[0].Op == OpAnd && lits[1].Op == OpAnd {
		if r := tb.factorOr(lits[0], lits[1]); r != nil {
			return r
		}
	}
	// absorption: a ∨ (a ∧ b) = a ; a ∨ (¬a ∧ b) = a ∨ b   (¬(x∨y) is viewed as ¬x ∧ ¬y)
	if len(lits) > 1 {
		changed := false
		for i, l := range lits {
			cs := tb.conjuncts(l)
			if cs == nil {
				continue
			}
			drop := false
			var keep []*Term
			for _, d := range cs {
				if seen[d.ID] {
					drop = true
					break
				}
				nd := tb.Not(d)
				if seen[nd.ID] {
					continue
				}
				keep = append(keep, d)
			}
			if drop {
				lits[i] = tb.False
				changed = true
			} else if len(keep) != len(cs) {
				lits[i] = tb.And(keep...)
				changed = true
			}
		}
		if changed {
			return tb.Or(lits...)
		}
	}
	switch len(lits) {
	case 0:
		return tb.False
	case 1:
		return lits[0]
	}
	sort.Slice(lits, func(i, j int) bool { return lits[i].ID < lits[j].ID })
	return tb.mk(&Term{Op: OpOr, S: BoolSort, Args: append([]*Term(nil), lits...)})
}

// disjuncts views a literal as a disjunction (nil if it is not one).
func (tb *TB) disjuncts(l *Term) []*Term {
	if l.Op == OpOr {
		return l.Args
	}
	if l.Op == OpNot && l.Args[0].Op == OpAnd {
		in := l.Args[0].Args
		out := make([]*Term, len(in))
		for i, x := range in {
			out[i] = tb.Not(x)
		}
		return out
	}
	return nil
}

// conjuncts views a literal as a conjunction (nil if it is not one).
func (tb *TB) conjuncts(l *Term) []*Term {
	if l.Op == OpAnd {
		return l.Args
	}
	if l.Op == OpNot && l.Args[0].Op == OpOr {
		in := l.Args[0].Args
		out := make([]*Term, len(in))
		for i, x := range in {
			out[i] = tb.Not(x)
		}
		return out
	}
	return nil
}

// factorOr: (C ∧ x) ∨ (C ∧ ¬x) = C, where C is the common conjunct set.
func (tb *TB) factorOr(a, b *Term) *Term {
	if len(a.Args) != len(b.Args) {
		return nil
	}
	inA := map[int]bool{}
	for _, x := range a.Args {
		inA[x.ID] = true
	}
	var diffB *Term
	for _, x := range b.Args {
		if !inA[x.ID] {
			if diffB != nil {
				return nil
			}
			diffB = x
		}
	}
	if diffB == nil {
		return a
	}
	nd := tb.Not(diffB)
	if !inA[nd.ID] {
		return nil
	}
	var common []*Term
	for _, x := range a.Args {
		if x != nd {
			common = append(common, x)
		}
	}
	return tb.And(common...)
}

func (tb *TB) Implies(a, b *Term) *Term { return tb.Or(tb.Not(a), b) }

func (tb *TB) Ite(c, a, b *Term) *Term {
	switch {
	case c.IsTrue():
		return a
	case c.IsFalse():
		return b
	case a == b:
		return a
	}
	if a.S != b.S {
		panic(fmt.Sprintf("ite sort mismatch %v %v", a.S, b.S))
	}
	if a.S.K == SBool {
		switch {
		case a.IsTrue() && b.IsFalse():
			return c
		case a.IsFalse() && b.IsTrue():
			return tb.Not(c)
		case a.IsTrue():
			return tb.Or(c, b)
		case a.IsFalse():
			return tb.And(tb.Not(c), b)
		case b.IsTrue():
			return tb.Or(tb.Not(c), a)
		case b.IsFalse():
			return tb.And(c, a)
		}
	}
	if c.Op == OpNot {
		return tb.Ite(c.Args[0], b, a)
	}
	// ite(c, ite(c, x, y), b) = ite(c, x, b)
	if a.Op == OpIte && a.Args[0] == c {
		a = a.Args[1]
	}
	if b.Op == OpIte && b.Args[0] == c {
		b = b.Args[2]
	}
	// ite(c, x, ite(d, x, y)) = ite(c∨d, x, y)
	if b.Op == OpIte && b.Args[1] == a {
		return tb.Ite(tb.Or(c, b.Args[0]), a, b.Args[2])
	}
	// ite(c, ite(d, x, y), y) = ite(c∧d, x, y) ; ite(c, ite(d, y, x), y) = ite(c∧¬d, x, y)
	if a.Op == OpIte && a.Args[2] == b {
		return tb.Ite(tb.And(c, a.Args[0]), a.Args[1], b)
	}
	if a.Op == OpIte && a.Args[1] == b {
		return tb.Ite(tb.And(c, tb.Not(a.Args[0])), a.Args[2], b)
	}
	if a == b {
		return a
	}
	return tb.mk(&Term{Op: OpIte, S: a.S, Args: []*Term{c, a, b}})
}

// constLeaves reports whether t is a small ite-tree whose leaves are all constants.
func constLeaves(t *Term, budget *int) bool {
	if *budget <= 0 {
		return false
	}
	*budget--
	if t.IsConst() {
		return true
	}
	if t.Op == OpIte {
		return constLeaves(t.Args[1], budget) && constLeaves(t.Args[2], budget)
	}
	return false
}

// mapLeaves applies f to the constant leaves of an ite tree.
func (tb *TB) mapLeaves(t *Term, f func(*Term) *Term) *Term {
	if t.Op == OpIte {
		return tb.Ite(t.Args[0], tb.mapLeaves(t.Args[1], f), tb.mapLeaves(t.Args[2], f))
	}
	return f(t)
}

func (tb *TB) Eq(a, b *Term) *Term {
	if a == b {
		if a.S.K == SFP {
			// structural equality on FP: used for bit-equality (NaN == NaN true here); IEEE eq is FEq
			return tb.True
		}
		return tb.True
	}
	if a.S != b.S {
		panic(fmt.Sprintf("eq sort mismatch %v %v", a.S, b.S))
	}
	if a.IsConst() && b.IsConst() {
		return tb.Bool(a.C == b.C)
	}
	if a.S.K == SBool {
		switch {
		case a.IsTrue():
			return b
		case b.IsTrue():
			return a
		case a.IsFalse():
			return tb.Not(b)
		case b.IsFalse():
			return tb.Not(a)
		}
	}
	if b.IsConst() || a.IsConst() {
		x, c := a, b
		if a.IsConst() {
			x, c = b, a
		}
		n := 64
		if x.Op == OpIte && constLeaves(x, &n) {
			return tb.mapLeaves(x, func(l *Term) *Term { return tb.Bool(l.C == c.C) })
		}
		// zext(y) = c
		if x.Op == OpZExt {
			y := x.Args[0]
			if c.C&^mask(y.S.W) != 0 {
				return tb.False
			}
			return tb.Eq(y, tb.BVConst(c.C, y.S.W))
		}
	}
	if a.ID > b.ID {
		a, b = b, a
	}
	return tb.mk(&Term{Op: OpEq, S: BoolSort, Args: []*Term{a, b}})
}

// ---------------------------------------------------------------------------------------------
// Bit-vector layer

func (tb *TB) bin(op Op, s Sort, a, b *Term) *Term {
	return tb.mk(&Term{Op: op, S: s, Args: []*Term{a, b}})
}

func sx(v uint64, w int) int64 {
	if w < 64 && v&(1<<uint(w-1)) != 0 {
		v |= ^mask(w)
	}
	return int64(v)
}

func foldBV(op Op, a, b uint64, w int) (uint64, bool) {
	m := mask(w)
	switch op {
	case OpAdd:
		return (a + b) & m, true
	case OpSub:
		return (a - b) & m, true
	case OpMul:
		return (a * b) & m, true
	case OpUDiv:
		if b == 0 {
			return m, true
		}
		return a / b, true
	case OpURem:
		if b == 0 {
			return a, true
		}
		return a % b, true
	case OpSDiv:
		if b == 0 {
			if sx(a, w) < 0 {
				return 1, true
			}
			return m, true
		}
		sa, sb := sx(a, w), sx(b, w)
		if sb == -1 {
			return uint64(-sa) & m, true
		}
		return uint64(sa/sb) & m, true
	case OpSRem:
		if b == 0 {
			return a, true
		}
		sa, sb := sx(a, w), sx(b, w)
		if sb == -1 {
			return 0, true
		}
		return uint64(sa%sb) & m, true
	case OpBAnd:
		return a & b, true
	case OpBOr:
		return a | b, true
	case OpBXor:
		return a ^ b, true
	case OpShl:
		if b >= uint64(w) {
			return 0, true
		}
		return (a << b) & m, true
	case OpLShr:
		if b >= uint64(w) {
			return 0, true
		}
		return a >> b, true
	case OpAShr:
		sa := sx(a, w)
		if b >= uint64(w) {
			b = uint64(w - 1)
		}
		return uint64(sa>>b) & m, true
	}
	return 0, false
}

func (tb *TB) BVOp(op Op, a, b *Term) *Term {
	if a.S != b.S {
		panic(fmt.Sprintf("bvop %v sort mismatch %v %v", opNames[op], a.S, b.S))
	}
	w := a.S.W
	if a.IsConst() && b.IsConst() {
		if v, ok := foldBV(op, a.C, b.C, w); ok {
			return tb.BVConst(v, w)
		}
	}
	switch op {
	case OpAdd:
		if a.IsConst() && a.C == 0 {
			return b
		}
		if b.IsConst() && b.C == 0 {
			return a
		}
		// (x + c1) + c2
		if b.IsConst() && a.Op == OpAdd && a.Args[1].IsConst() {
			return tb.BVOp(OpAdd, a.Args[0], tb.BVConst(a.Args[1].C+b.C, w))
		}
		if a.IsConst() {
			a, b = b, a
		}
		if !b.IsConst() && a.ID > b.ID {
			a, b = b, a
		}
	case OpSub:
		if b.IsConst() && b.C == 0 {
			return a
		}
		if a == b {
			return tb.BVConst(0, w)
		}
		if b.IsConst() {
			return tb.BVOp(OpAdd, a, tb.BVConst(-b.C, w))
		}
	case OpMul:
		if a.IsConst() {
			a, b = b, a
		}
		if b.IsConst() {
			if b.C == 0 {
				return b
			}
			if b.C == 1 {
				return a
			}
		} else if a.ID > b.ID {
			a, b = b, a
		}
	case OpBAnd:
		if a == b {
			return a
		}
		if a.IsConst() {
			a, b = b, a
		}
		if b.IsConst() {
			if b.C == 0 {
				return b
			}
			if b.C == mask(w) {
				return a
			}
		}
	case OpBOr, OpBXor:
		if a.IsConst() {
			a, b = b, a
		}
		if b.IsConst() && b.C == 0 {
			return a
		}
		if a == b {
			if op == OpBOr {
				return a
			}
			return tb.BVConst(0, w)
		}
	case OpShl, OpLShr, OpAShr:
		if b.IsConst() && b.C == 0 {
			return a
		}
		if b.IsConst() && b.C >= uint64(w) && op != OpAShr {
			return tb.BVConst(0, w)
		}
	case OpUDiv, OpSDiv:
		if b.IsConst() && b.C == 1 {
			return a
		}
	}
	// push through small constant-leaf ite trees when the other side is constant
	if b.IsConst() && a.Op == OpIte {
		n := 16
		if constLeaves(a, &n) {
			return tb.mapLeaves(a, func(l *Term) *Term { return tb.BVOp(op, l, b) })
		}
	}
	if a.IsConst() && b.Op == OpIte {
		n := 16
		if constLeaves(b, &n) {
			return tb.mapLeaves(b, func(l *Term) *Term { return tb.BVOp(op, a, l) })
		}
	}
	return tb.bin(op, a.S, a, b)
}

func (tb *TB) BVNot(a *Term) *Term {
	if a.IsConst() {
		return tb.BVConst(^a.C, a.S.W)
	}
	return tb.mk(&Term{Op: OpBNot, S: a.S, Args: []*Term{a}})
}

func (tb *TB) BVNeg(a *Term) *Term {
	if a.IsConst() {
		return tb.BVConst(-a.C, a.S.W)
	}
	return tb.mk(&Term{Op: OpNeg, S: a.S, Args: []*Term{a}})
}

func (tb *TB) Cmp(op Op, a, b *Term) *Term {
	if a.S != b.S {
		panic(fmt.Sprintf("cmp sort mismatch %v %v", a.S, b.S))
	}
	w := a.S.W
	if a.IsConst() && b.IsConst() {
		switch op {
		case OpULT:
			return tb.Bool(a.C < b.C)
		case OpULE:
			return tb.Bool(a.C <= b.C)
		case OpSLT:
			return tb.Bool(sx(a.C, w) < sx(b.C, w))
		case OpSLE:
			return tb.Bool(sx(a.C, w) <= sx(b.C, w))
		}
	}
	if a == b {
		return tb.Bool(op == OpULE || op == OpSLE)
	}
	if b.IsConst() && a.Op == OpIte {
		n := 64
		if constLeaves(a, &n) {
			return tb.mapLeaves(a, func(l *Term) *Term { return tb.Cmp(op, l, b) })
		}
	}
	if a.IsConst() && b.Op == OpIte {
		n := 64
		if constLeaves(b, &n) {
			return tb.mapLeaves(b, func(l *Term) *Term { return tb.Cmp(op, a, l) })
		}
	}
	// range facts from cheap bounds (both sides small non-negative numbers, so signed = unsigned)
	if w == 64 {
		ua, ub := tb.UB(a), tb.UB(b)
		if ua < ubInf && ub < ubInf {
			la, lb := tb.LB(a), tb.LB(b)
			switch op {
			case OpULT, OpSLT:
				if ua < lb {
					return tb.True
				}
				if la >= ub {
					return tb.False
				}
			case OpULE, OpSLE:
				if ua <= lb {
					return tb.True
				}
				if la > ub {
					return tb.False
				}
			}
		}
	}
	// unsigned x < 0 is false, 0 <= x true
	if op == OpULT && b.IsConst() && b.C == 0 {
		return tb.False
	}
	if op == OpULE && a.IsConst() && a.C == 0 {
		return tb.True
	}
	return tb.bin(op, BoolSort, a, b)
}

func (tb *TB) Extract(a *Term, hi, lo int) *Term {
	w := hi - lo + 1
	if w == a.S.W {
		return a
	}
	if a.IsConst() {
		return tb.BVConst(a.C>>uint(lo), w)
	}
	if (a.Op == OpZExt || a.Op == OpSExt) && lo == 0 {
		in := a.Args[0]
		if w == in.S.W {
			return in
		}
		if w < in.S.W {
			return tb.Extract(in, hi, lo)
		}
		if a.Op == OpZExt {
			return tb.ZExt(in, w)
		}
		return tb.SExt(in, w)
	}
	if a.Op == OpIte {
		n := 16
		if constLeaves(a, &n) {
			return tb.mapLeaves(a, func(l *Term) *Term { return tb.Extract(l, hi, lo) })
		}
	}
	return tb.mk(&Term{Op: OpExtract, S: BV(w), Args: []*Term{a}, I: hi, J: lo})
}

func (tb *TB) ZExt(a *Term, w int) *Term {
	if w == a.S.W {
		return a
	}
	if w < a.S.W {
		return tb.Extract(a, w-1, 0)
	}
	if a.IsConst() {
		return tb.BVConst(a.C, w)
	}
	if a.Op == OpZExt {
		return tb.ZExt(a.Args[0], w)
	}
	if a.Op == OpIte {
		n := 16
		if constLeaves(a, &n) {
			return tb.mapLeaves(a, func(l *Term) *Term { return tb.ZExt(l, w) })
		}
	}
	return tb.mk(&Term{Op: OpZExt, S: BV(w), Args: []*Term{a}})
}

func (tb *TB) SExt(a *Term, w int) *Term {
	if w == a.S.W {
		return a
	}
	if w < a.S.W {
		return tb.Extract(a, w-1, 0)
	}
	if a.IsConst() {
		return tb.BVConst(uint64(sx(a.C, a.S.W)), w)
	}
	if a.Op == OpIte {
		n := 16
		if constLeaves(a, &n) {
			return tb.mapLeaves(a, func(l *Term) *Term { return tb.SExt(l, w) })
		}
	}
	return tb.mk(&Term{Op: OpSExt, S: BV(w), Args: []*Term{a}})
}

func (tb *TB) Concat(hi, lo *Term) *Term {
	w := hi.S.W + lo.S.W
	if hi.IsConst() && lo.IsConst() {
		return tb.BVConst(hi.C<<uint(lo.S.W)|lo.C, w)
	}
	return tb.mk(&Term{Op: OpConcat, S: BV(w), Args: []*Term{hi, lo}})
}

// Len64 closed form of math/bits.Len64 as an ite chain.
func (tb *TB) Len64(x *Term) *Term {
	if x.IsConst() {
		return tb.Int(int64(bits.Len64(x.C)))
	}
	r := tb.Int(0)
	for k := 1; k <= 64; k++ {
		// x >= 2^(k-1)  => len >= k
		r = tb.Ite(tb.Cmp(OpULE, tb.BVConst(uint64(1)<<uint(k-1), 64), x), tb.Int(int64(k)), r)
	}
	return r
}

// ---------------------------------------------------------------------------------------------
// Floating point

func (tb *TB) FPOp(op Op, a, b *Term) *Term {
	if a.S != b.S {
		panic("fpop sort mismatch")
	}
	if a.IsConst() && b.IsConst() {
		x, y := a.FPVal(), b.FPVal()
		var r float64
		if a.S.W == 32 {
			fx, fy := float32(x), float32(y)
			switch op {
			case OpFAdd:
				r = float64(fx + fy)
			case OpFSub:
				r = float64(fx - fy)
			case OpFMul:
				r = float64(fx * fy)
			case OpFDiv:
				r = float64(fx / fy)
			}
		} else {
			switch op {
			case OpFAdd:
				r = x + y
			case OpFSub:
				r = x - y
			case OpFMul:
				r = x * y
			case OpFDiv:
				r = x / y
			}
		}
		return tb.FPConst(r, a.S.W)
	}
	// identities that hold for every IEEE value up to the sign of zero (signed zeros are identified by
	// every comparison the code under test makes; stated in DESIGN.md): x*1 = x, x/1 = x, x+0 = x, x-0 = x,
	// 0 * (int converted to float) = 0
	isC := func(t *Term, v float64) bool { return t.IsConst() && t.FPVal() == v }
	switch op {
	case OpFMul:
		if isC(a, 1) {
			return b
		}
		if isC(b, 1) {
			return a
		}
		if isC(a, 0) && (b.Op == OpSToF || b.Op == OpUToF) {
			return tb.FPConst(0, a.S.W)
		}
		if isC(b, 0) && (a.Op == OpSToF || a.Op == OpUToF) {
			return tb.FPConst(0, a.S.W)
		}
	case OpFDiv:
		if isC(b, 1) {
			return a
		}
	case OpFAdd:
		if isC(a, 0) {
			return b
		}
		if isC(b, 0) {
			return a
		}
	case OpFSub:
		if isC(b, 0) {
			return a
		}
	}
	if (op == OpFAdd || op == OpFMul) && a.ID > b.ID {
		a, b = b, a
	}
	return tb.bin(op, a.S, a, b)
}

func (tb *TB) FPNeg(a *Term) *Term {
	if a.IsConst() {
		return tb.FPConst(-a.FPVal(), a.S.W)
	}
	return tb.mk(&Term{Op: OpFNeg, S: a.S, Args: []*Term{a}})
}

func (tb *TB) FPCmp(op Op, a, b *Term) *Term {
	if a.IsConst() && b.IsConst() {
		x, y := a.FPVal(), b.FPVal()
		switch op {
		case OpFLT:
			return tb.Bool(x < y)
		case OpFLE:
			return tb.Bool(x <= y)
		case OpFEQ:
			return tb.Bool(x == y)
		}
	}
	return tb.bin(op, BoolSort, a, b)
}

func (tb *TB) FPIsNaN(a *Term) *Term {
	if a.IsConst() {
		return tb.Bool(math.IsNaN(a.FPVal()))
	}
	return tb.mk(&Term{Op: OpFIsNaN, S: BoolSort, Args: []*Term{a}})
}

func (tb *TB) FPIsInf(a *Term) *Term {
	if a.IsConst() {
		return tb.Bool(math.IsInf(a.FPVal(), 0))
	}
	return tb.mk(&Term{Op: OpFIsInf, S: BoolSort, Args: []*Term{a}})
}

// IntToFP converts a BV (signed or unsigned) to FP of width fw.
func (tb *TB) IntToFP(a *Term, signed bool, fw int) *Term {
	if a.IsConst() {
		if signed {
			return tb.FPConst(float64(sx(a.C, a.S.W)), fw)
		}
		return tb.FPConst(float64(a.C), fw)
	}
	op := OpUToF
	if signed {
		op = OpSToF
	}
	s := F64
	if fw == 32 {
		s = F32
	}
	return tb.mk(&Term{Op: op, S: s, Args: []*Term{a}})
}

// FPToInt converts FP to BV of width w (round toward zero), result unspecified when out of range.
func (tb *TB) FPToInt(a *Term, signed bool, w int) *Term {
	if a.IsConst() {
		f := a.FPVal()
		if !math.IsNaN(f) && !math.IsInf(f, 0) && math.Abs(f) < 9e18 {
			if signed {
				return tb.BVConst(uint64(int64(f)), w)
			}
			if f >= 0 {
				return tb.BVConst(uint64(f), w)
			}
		}
	}
	op := OpFToU
	if signed {
		op = OpFToS
	}
	return tb.mk(&Term{Op: op, S: BV(w), Args: []*Term{a}})
}

func (tb *TB) FPToFP(a *Term, fw int) *Term {
	if a.S.W == fw {
		return a
	}
	if a.IsConst() {
		return tb.FPConst(a.FPVal(), fw)
	}
	s := F64
	if fw == 32 {
		s = F32
	}
	return tb.mk(&Term{Op: OpFToF, S: s, Args: []*Term{a}})
}

// ---------------------------------------------------------------------------------------------
// SMT-LIB printing

func constSMT(t *Term) string {
	switch t.S.K {
	case SBool:
		if t.C == 1 {
			return "true"
		}
		return "false"
	case SBV:
		if t.S.W%4 == 0 {
			return fmt.Sprintf("#x%0*x", t.S.W/4, t.C)
		}
		return fmt.Sprintf("#b%0*b", t.S.W, t.C)
	default:
		if t.S.W == 32 {
			b := uint32(t.C)
			return fmt.Sprintf("(fp #b%b #b%08b #b%023b)", b>>31, (b>>23)&0xff, b&0x7fffff)
		}
		b := t.C
		return fmt.Sprintf("(fp #b%b #b%011b #b%052b)", b>>63, (b>>52)&0x7ff, b&((1<<52)-1))
	}
}

func smtName(t *Term) string {
	if t.Op == OpVar {
		return "|" + t.Name + "|"
	}
	return fmt.Sprintf("n%d", t.ID)
}

func fpParams(w int) string {
	if w == 32 {
		return "8 24"
	}
	return "11 53"
}

// exprSMT prints one node in terms of the names of its arguments.
func exprSMT(t *Term, ref func(*Term) string) string {
	a := func(i int) string { return ref(t.Args[i]) }
	switch t.Op {
	case OpConst:
		return constSMT(t)
	case OpVar:
		return smtName(t)
	case OpExtract:
		return fmt.Sprintf("((_ extract %d %d) %s)", t.I, t.J, a(0))
	case OpZExt:
		return fmt.Sprintf("((_ zero_extend %d) %s)", t.S.W-t.Args[0].S.W, a(0))
	case OpSExt:
		return fmt.Sprintf("((_ sign_extend %d) %s)", t.S.W-t.Args[0].S.W, a(0))
	case OpSToF:
		return fmt.Sprintf("((_ to_fp %s) RNE %s)", fpParams(t.S.W), a(0))
	case OpUToF:
		return fmt.Sprintf("((_ to_fp_unsigned %s) RNE %s)", fpParams(t.S.W), a(0))
	case OpFToS:
		return fmt.Sprintf("((_ fp.to_sbv %d) RTZ %s)", t.S.W, a(0))
	case OpFToU:
		return fmt.Sprintf("((_ fp.to_ubv %d) RTZ %s)", t.S.W, a(0))
	case OpFToF:
		return fmt.Sprintf("((_ to_fp %s) RNE %s)", fpParams(t.S.W), a(0))
	case OpEq:
		return fmt.Sprintf("(= %s %s)", a(0), a(1))
	}
	name, ok := opNames[t.Op]
	if !ok {
		panic(fmt.Sprintf("no smt name for op %d", t.Op))
	}
	var sb strings.Builder
	sb.WriteString("(")
	sb.WriteString(name)
	for i := range t.Args {
		sb.WriteString(" ")
		sb.WriteString(a(i))
	}
	sb.WriteString(")")
	return sb.String()
}

// ---------------------------------------------------------------------------------------------
// Cheap unsigned upper bounds (used to decide "fits in capacity" without a solver call)

const ubInf = uint64(1) << 62

// UB returns a sound unsigned upper bound of a BV term (ubInf when unknown).
func (tb *TB) UB(t *Term) uint64 {
	if tb.ub == nil {
		tb.ub = map[int]uint64{}
	}
	if v, ok := tb.ub[t.ID]; ok {
		return v
	}
	r := ubInf
	switch t.Op {
	case OpConst:
		r = t.C
		if r > ubInf {
			r = ubInf
		}
	case OpIte:
		a, b := tb.UB(t.Args[1]), tb.UB(t.Args[2])
		r = a
		if b > r {
			r = b
		}
		// clamp pattern min(x, B) = ite(x <=u B, x, B)
		if c := t.Args[0]; (c.Op == OpULE) && c.Args[0] == t.Args[1] && c.Args[1].IsConst() && t.Args[2] == c.Args[1] {
			r = c.Args[1].C
		}
	case OpAdd:
		a, b := tb.UB(t.Args[0]), tb.UB(t.Args[1])
		// additions of small values cannot wrap; a constant like -1 (huge unsigned) yields unknown
		if a < ubInf/2 && b < ubInf/2 {
			r = a + b
		} else if t.Args[1].IsConst() && sx(t.Args[1].C, t.S.W) < 0 && a < ubInf {
			// x + (-c): no underflow when lb(x) >= c
			c := uint64(-sx(t.Args[1].C, t.S.W))
			if tb.LB(t.Args[0]) >= c {
				r = a - c
			}
		}
	case OpZExt:
		r = tb.UB(t.Args[0])
	case OpUDiv, OpSDiv:
		if c := t.Args[1]; c.IsConst() && c.C > 0 && c.C < ubInf {
			if a := tb.UB(t.Args[0]); a < ubInf {
				r = a / c.C
			}
		}
	case OpMul:
		a, b := tb.UB(t.Args[0]), tb.UB(t.Args[1])
		if a < 1<<30 && b < 1<<30 {
			r = a * b
		}
	case OpBOr, OpBXor:
		a, b := tb.UB(t.Args[0]), tb.UB(t.Args[1])
		if a < ubInf && b < ubInf {
			m := a
			if b > m {
				m = b
			}
			// smallest 2^k-1 >= m
			p := uint64(1)
			for p-1 < m {
				p <<= 1
			}
			r = p - 1
		}
	case OpLShr:
		if c := t.Args[1]; c.IsConst() && c.C < 64 {
			if a := tb.UB(t.Args[0]); a < ubInf {
				r = a >> c.C
			}
		}
	case OpShl:
		if c := t.Args[1]; c.IsConst() && c.C < 30 {
			if a := tb.UB(t.Args[0]); a < 1<<30 {
				r = a << c.C
			}
		}
	case OpSub:
		a, b := t.Args[0], t.Args[1]
		if tb.UB(a) < ubInf && tb.UB(b) < ubInf && tb.LB(a) >= tb.UB(b) {
			r = tb.UB(a) - tb.LB(b)
		}
	case OpExtract:
		if t.J == 0 {
			r = tb.UB(t.Args[0])
			if t.S.W < 62 && r > mask(t.S.W) {
				r = mask(t.S.W)
			}
		}
	case OpBAnd:
		a, b := tb.UB(t.Args[0]), tb.UB(t.Args[1])
		r = a
		if b < r {
			r = b
		}
	case OpURem:
		if b := tb.UB(t.Args[1]); b > 0 && b < ubInf {
			r = b - 1
		}
	case OpVar:
		if t.S.W < 62 {
			r = mask(t.S.W)
		} else if v, ok := tb.varUB[t.ID]; ok {
			r = v
		}
	}
	tb.ub[t.ID] = r
	return r
}

// SetVarUB records a range fact about an input variable (from vpInt ranges).
func (tb *TB) SetVarUB(t *Term, hi uint64) {
	if tb.varUB == nil {
		tb.varUB = map[int]uint64{}
	}
	tb.varUB[t.ID] = hi
	delete(tb.ub, t.ID)
}

// LB returns a sound unsigned lower bound of a BV term (0 when unknown).
func (tb *TB) LB(t *Term) uint64 {
	if tb.lb == nil {
		tb.lb = map[int]uint64{}
	}
	if v, ok := tb.lb[t.ID]; ok {
		return v
	}
	var r uint64
	switch t.Op {
	case OpConst:
		r = t.C
		if r > ubInf {
			r = 0 // negative numbers seen as huge unsigned: not useful as a bound
		}
	case OpIte:
		a, b := tb.LB(t.Args[1]), tb.LB(t.Args[2])
		r = a
		if b < r {
			r = b
		}
	case OpAdd:
		x, y := t.Args[0], t.Args[1]
		if y.IsConst() && sx(y.C, t.S.W) < 0 {
			c := uint64(-sx(y.C, t.S.W))
			if l := tb.LB(x); l >= c && tb.UB(x) < ubInf {
				r = l - c
			}
		} else if tb.UB(x) < ubInf/2 && tb.UB(y) < ubInf/2 {
			r = tb.LB(x) + tb.LB(y)
		}
	case OpZExt:
		r = tb.LB(t.Args[0])
	}
	tb.lb[t.ID] = r
	return r
}

// Dump prints a term up to a depth (debugging).
func (t *Term) Dump(depth int) string {
	if t.IsConst() {
		return constSMT(t)
	}
	if t.Op == OpVar {
		return t.Name
	}
	if depth == 0 {
		return fmt.Sprintf("n%d", t.ID)
	}
	name := opNames[t.Op]
	if name == "" {
		name = fmt.Sprintf("op%d", t.Op)
	}
	var sb strings.Builder
	sb.WriteString("(" + name)
	for _, a := range t.Args {
		sb.WriteString(" " + a.Dump(depth-1))
	}
	sb.WriteString(")")
	return sb.String()
}

// WhyUnbounded describes the sub-term responsible for an unknown upper bound (debugging).
func (tb *TB) WhyUnbounded(t *Term) string {
	for depth := 0; depth < 200; depth++ {
		var next *Term
		for _, a := range t.Args {
			if a.S.K == SBV && tb.UB(a) >= ubInf {
				next = a
				break
			}
		}
		if next == nil || (t.Op != OpIte && t.Op != OpAdd && t.Op != OpZExt) {
			return t.Dump(3)
		}
		t = next
	}
	return "?"
}

// ClampUB returns min(x, b) as a term whose upper bound is syntactically b.
func (tb *TB) ClampUB(x *Term, b uint64) *Term {
	if tb.UB(x) <= b {
		return x
	}
	bc := tb.BVConst(b, x.S.W)
	if x.IsConst() {
		if x.C > b {
			return bc
		}
		return x
	}
	c := tb.mk(&Term{Op: OpULE, S: BoolSort, Args: []*Term{x, bc}})
	return tb.mk(&Term{Op: OpIte, S: x.S, Args: []*Term{c, x, bc}})
}

// exprSMTAbs prints FP arithmetic and conversions as uninterpreted functions.
func exprSMTAbs(t *Term, ref func(*Term) string) string {
	a := func(i int) string { return ref(t.Args[i]) }
	w := t.S.W
	switch t.Op {
	case OpFAdd, OpFSub, OpFMul, OpFDiv:
		name := map[Op]string{OpFAdd: "fadd", OpFSub: "fsub", OpFMul: "fmul", OpFDiv: "fdiv"}[t.Op]
		return fmt.Sprintf("(uf_%s%d %s %s)", name, w, a(0), a(1))
	case OpSToF:
		return fmt.Sprintf("(uf_stof%d_%d %s)", w, t.Args[0].S.W, a(0))
	case OpUToF:
		return fmt.Sprintf("(uf_utof%d_%d %s)", w, t.Args[0].S.W, a(0))
	case OpFToS:
		return fmt.Sprintf("(uf_ftos%d_%d %s)", t.Args[0].S.W, w, a(0))
	case OpFToU:
		return fmt.Sprintf("(uf_ftou%d_%d %s)", t.Args[0].S.W, w, a(0))
	case OpFToF:
		return fmt.Sprintf("(uf_ftof%d %s)", w, a(0))
	}
	return exprSMT(t, ref)
}
