package eng

import (
	"fmt"
	"go/types"
	"strings"

	"golang.org/x/tools/go/ssa"
)

// Value is one of: *Term (scalar), *Ptr, *StructV, *ArrayV, *SliceV, *StrV, *MapV, *ChanV, *IfaceV, *FuncV, *TupleV.
type Value interface{}

type PathEl struct {
	Idx int   // field index or concrete array index
	Sym *Term // symbolic array index (BV64) when non-nil
}

type PtrAlt struct {
	G    *Term
	Obj  *Object // nil => nil pointer
	Path []PathEl
}
type Ptr struct{ Alts []PtrAlt }

type StructV struct{ F []Value }
type ArrayV struct{ E []Value }
type TupleV struct{ E []Value }

type SliceAlt struct {
	G             *Term
	Arr           *Object // nil => nil slice
	Off, Len, Cap *Term   // BV64
	ML1, MC1      int     // 1 + (upper bound of Len / lower bound of Cap valid wherever this alternative is live); 0 = unknown
}
type SliceV struct{ Alts []SliceAlt }

type StrAlt struct {
	G   *Term
	S   string
	Sym []*Term // symbolic bytes (BV8) when non-nil; S unused then
}
type StrV struct{ Alts []StrAlt }

type RefAlt struct {
	G   *Term
	Obj *Object // nil => nil map/chan
}
type MapV struct{ Alts []RefAlt }
type ChanV struct{ Alts []RefAlt }

type IfaceAlt struct {
	G *Term
	T types.Type // nil => nil interface
	V Value
}
type IfaceV struct{ Alts []IfaceAlt }

type FuncAlt struct {
	G       *Term
	Fn      *ssa.Function // nil with Builtin=="" => nil func
	Builtin string
	Bind    []Value
	Recv    Value // bound receiver for method values of intrinsic objects
}
type FuncV struct{ Alts []FuncAlt }

// ---------------------------------------------------------------------------------------------
// Heap objects (mutable, single global heap; all writes are guarded)

type ObjKind uint8

const (
	OCell ObjKind = iota
	OArr
	OMap
	OChan
	OCtx
	OOpaque
)

type MapEntry struct {
	Key     Value
	Present *Term
	Val     Value
}

type Object struct {
	ID   int
	Kind ObjKind
	Typ  types.Type // element type (cell: stored type; arr: element type; map: map type; chan: chan type)
	Site string
	V    Value   // cell
	E    []Value // array cells
	// map
	Ents []*MapEntry
	// chan
	Cap    int
	Buf    []Value
	N      *Term
	Closed *Term
	Bag    bool
	Env    *EnvChan
	Ctx    *Object // done-channel of this context object
	// ctx
	Cancelled *Term
	Parent    *Object
	AfterFns  []Value
	Err       Value
	Tag       string
	OfferV    Value // a pending sender offered by the harness (scripted environment): value and guard
	OfferG    *Term
	ViewOf    *Object  // array view: cells live inside ViewOf at ViewPath (an array embedded in a struct that was sliced)
	ViewPath  []PathEl
	Live      *Term // pooled arrays: disjunction of the guards under which the object was allocated
}

type EnvChan struct {
	SendEnabled func() *Term
	RecvEnabled func() *Term
	RecvValue   func() Value
	OnSend      func(v Value)
}

func (o *Object) String() string { return fmt.Sprintf("obj%d@%s", o.ID, o.Site) }

// ---------------------------------------------------------------------------------------------

func (e *Engine) newObj(kind ObjKind, typ types.Type, site string) *Object {
	e.objSeq++
	return &Object{ID: e.objSeq, Kind: kind, Typ: typ, Site: site}
}

func (e *Engine) nilPtr() *Ptr       { return &Ptr{[]PtrAlt{{G: e.tb.True}}} }
func (e *Engine) ptrTo(o *Object, path ...PathEl) *Ptr {
	return &Ptr{[]PtrAlt{{G: e.tb.True, Obj: o, Path: path}}}
}
func (e *Engine) str(s string) *StrV { return &StrV{[]StrAlt{{G: e.tb.True, S: s}}} }

func isTimeType(t types.Type) bool {
	if n, ok := t.(*types.Named); ok {
		o := n.Obj()
		return o.Pkg() != nil && o.Pkg().Path() == "time" && o.Name() == "Time"
	}
	return false
}

func namedIs(t types.Type, pkg, name string) bool {
	if n, ok := t.(*types.Named); ok {
		o := n.Obj()
		return o.Pkg() != nil && o.Pkg().Path() == pkg && o.Name() == name
	}
	return false
}

const zeroInstant = -(int64(1) << 62)

func sortOfBasic(b *types.Basic) (Sort, bool) {
	switch b.Kind() {
	case types.Bool, types.UntypedBool:
		return BoolSort, true
	case types.Int8, types.Uint8:
		return BV8, true
	case types.Int16, types.Uint16:
		return BV(16), true
	case types.Int32, types.Uint32, types.UntypedRune:
		return BV32, true
	case types.Int, types.Int64, types.Uint, types.Uint64, types.Uintptr, types.UntypedInt:
		return BV64, true
	case types.Float64, types.UntypedFloat:
		return F64, true
	case types.Float32:
		return F32, true
	}
	return Sort{}, false
}

func isSigned(t types.Type) bool {
	if b, ok := t.Underlying().(*types.Basic); ok {
		return b.Info()&types.IsUnsigned == 0
	}
	return true
}

// zero builds the zero value of a type.
func (e *Engine) zero(t types.Type) Value {
	if isTimeType(t) {
		return e.tb.Int(zeroInstant)
	}
	switch u := t.Underlying().(type) {
	case *types.Basic:
		if u.Kind() == types.String || u.Kind() == types.UntypedString {
			return e.str("")
		}
		if u.Kind() == types.UnsafePointer {
			return e.nilPtr()
		}
		if u.Kind() == types.UntypedNil {
			return e.nilPtr()
		}
		s, ok := sortOfBasic(u)
		if !ok {
			panic(e.unsupported("zero of basic type %v", t))
		}
		switch s.K {
		case SBool:
			return e.tb.False
		case SBV:
			return e.tb.BVConst(0, s.W)
		default:
			return e.tb.FPConst(0, s.W)
		}
	case *types.Pointer:
		return e.nilPtr()
	case *types.Struct:
		f := make([]Value, u.NumFields())
		for i := range f {
			f[i] = e.zero(u.Field(i).Type())
		}
		return &StructV{f}
	case *types.Array:
		n := int(u.Len())
		el := make([]Value, n)
		if n > 0 {
			z := e.zero(u.Elem())
			for i := range el {
				el[i] = z
			}
		}
		return &ArrayV{el}
	case *types.Slice:
		return &SliceV{[]SliceAlt{{G: e.tb.True, Off: e.tb.Int(0), Len: e.tb.Int(0), Cap: e.tb.Int(0)}}}
	case *types.Map:
		return &MapV{[]RefAlt{{G: e.tb.True}}}
	case *types.Chan:
		return &ChanV{[]RefAlt{{G: e.tb.True}}}
	case *types.Interface:
		return &IfaceV{[]IfaceAlt{{G: e.tb.True}}}
	case *types.Signature:
		return &FuncV{[]FuncAlt{{G: e.tb.True}}}
	case *types.Tuple:
		el := make([]Value, u.Len())
		for i := range el {
			el[i] = e.zero(u.At(i).Type())
		}
		return &TupleV{el}
	}
	panic(e.unsupported("zero of type %v (%T)", t, t.Underlying()))
}

// ---------------------------------------------------------------------------------------------
// ite over values

func pathEq(a, b []PathEl) bool {
	if len(a) != len(b) {
		return false
	}
	for i := range a {
		if a[i].Idx != b[i].Idx || a[i].Sym != b[i].Sym {
			return false
		}
	}
	return true
}

// iteVal returns the value that is a under c and b otherwise.
func (e *Engine) iteVal(c *Term, a, b Value) Value {
	if c.IsTrue() {
		return a
	}
	if c.IsFalse() {
		return b
	}
	if a == b {
		return a
	}
	tb := e.tb
	nc := tb.Not(c)
	switch x := a.(type) {
	case *Term:
		y, ok := b.(*Term)
		if !ok {
			panic(fmt.Sprintf("iteVal kind mismatch: %T vs %T", a, b))
		}
		return tb.Ite(c, x, y)
	case *Ptr:
		y := b.(*Ptr)
		out := make([]PtrAlt, 0, len(x.Alts)+len(y.Alts))
		for _, al := range x.Alts {
			g := tb.And(c, al.G)
			if !g.IsFalse() {
				out = append(out, PtrAlt{g, al.Obj, al.Path})
			}
		}
		for _, al := range y.Alts {
			g := tb.And(nc, al.G)
			if g.IsFalse() {
				continue
			}
			found := false
			for i := range out {
				if out[i].Obj == al.Obj && pathEq(out[i].Path, al.Path) {
					out[i].G = tb.Or(out[i].G, g)
					found = true
					break
				}
			}
			if !found {
				out = append(out, PtrAlt{g, al.Obj, al.Path})
			}
		}
		return &Ptr{out}
	case *StructV:
		y := b.(*StructV)
		f := make([]Value, len(x.F))
		for i := range f {
			f[i] = e.iteVal(c, x.F[i], y.F[i])
		}
		return &StructV{f}
	case *ArrayV:
		y := b.(*ArrayV)
		f := make([]Value, len(x.E))
		for i := range f {
			f[i] = e.iteVal(c, x.E[i], y.E[i])
		}
		return &ArrayV{f}
	case *TupleV:
		y := b.(*TupleV)
		f := make([]Value, len(x.E))
		for i := range f {
			f[i] = e.iteVal(c, x.E[i], y.E[i])
		}
		return &TupleV{f}
	case *SliceV:
		y := b.(*SliceV)
		out := make([]SliceAlt, 0, len(x.Alts)+len(y.Alts))
		for _, al := range x.Alts {
			g := tb.And(c, al.G)
			if !g.IsFalse() {
				al.G = g
				out = append(out, al)
			}
		}
		for _, al := range y.Alts {
			g := tb.And(nc, al.G)
			if g.IsFalse() {
				continue
			}
			found := false
			for i := range out {
				if out[i].Arr == al.Arr {
					// same backing array: merge header fields
					out[i].Off = tb.Ite(g, al.Off, out[i].Off)
					out[i].Len = tb.Ite(g, al.Len, out[i].Len)
					out[i].Cap = tb.Ite(g, al.Cap, out[i].Cap)
					out[i].G = tb.Or(out[i].G, g)
					if al.ML1 == 0 || out[i].ML1 == 0 {
						out[i].ML1 = 0
					} else if al.ML1 > out[i].ML1 {
						out[i].ML1 = al.ML1
					}
					if al.MC1 == 0 || out[i].MC1 == 0 {
						out[i].MC1 = 0
					} else if al.MC1 < out[i].MC1 {
						out[i].MC1 = al.MC1
					}
					found = true
					break
				}
			}
			if !found {
				al.G = g
				out = append(out, al)
			}
		}
		return &SliceV{out}
	case *StrV:
		y := b.(*StrV)
		out := make([]StrAlt, 0, len(x.Alts)+len(y.Alts))
		for _, al := range x.Alts {
			g := tb.And(c, al.G)
			if !g.IsFalse() {
				al.G = g
				out = append(out, al)
			}
		}
		for _, al := range y.Alts {
			g := tb.And(nc, al.G)
			if g.IsFalse() {
				continue
			}
			found := false
			if al.Sym == nil {
				for i := range out {
					if out[i].Sym == nil && out[i].S == al.S {
						out[i].G = tb.Or(out[i].G, g)
						found = true
						break
					}
				}
			} else {
				for i := range out {
					if out[i].Sym != nil && len(out[i].Sym) == len(al.Sym) {
						ns := make([]*Term, len(al.Sym))
						for k := range ns {
							ns[k] = tb.Ite(g, al.Sym[k], out[i].Sym[k])
						}
						out[i].Sym = ns
						out[i].G = tb.Or(out[i].G, g)
						found = true
						break
					}
				}
			}
			if !found {
				al.G = g
				out = append(out, al)
			}
		}
		return &StrV{out}
	case *MapV:
		y := b.(*MapV)
		return &MapV{e.mergeRefs(c, nc, x.Alts, y.Alts)}
	case *ChanV:
		y := b.(*ChanV)
		return &ChanV{e.mergeRefs(c, nc, x.Alts, y.Alts)}
	case *IfaceV:
		y := b.(*IfaceV)
		out := make([]IfaceAlt, 0, len(x.Alts)+len(y.Alts))
		for _, al := range x.Alts {
			g := tb.And(c, al.G)
			if !g.IsFalse() {
				al.G = g
				out = append(out, al)
			}
		}
		for _, al := range y.Alts {
			g := tb.And(nc, al.G)
			if g.IsFalse() {
				continue
			}
			found := false
			for i := range out {
				if (out[i].T == nil) != (al.T == nil) {
					continue
				}
				if al.T == nil || types.Identical(out[i].T, al.T) {
					if al.T != nil {
						out[i].V = e.iteVal(g, al.V, out[i].V)
					}
					out[i].G = tb.Or(out[i].G, g)
					found = true
					break
				}
			}
			if !found {
				al.G = g
				out = append(out, al)
			}
		}
		return &IfaceV{out}
	case *FuncV:
		y := b.(*FuncV)
		out := make([]FuncAlt, 0, len(x.Alts)+len(y.Alts))
		for _, al := range x.Alts {
			g := tb.And(c, al.G)
			if !g.IsFalse() {
				al.G = g
				out = append(out, al)
			}
		}
		for _, al := range y.Alts {
			g := tb.And(nc, al.G)
			if g.IsFalse() {
				continue
			}
			found := false
			for i := range out {
				if out[i].Fn == al.Fn && out[i].Builtin == al.Builtin && len(out[i].Bind) == len(al.Bind) && out[i].Recv == nil && al.Recv == nil {
					nb := make([]Value, len(al.Bind))
					for k := range nb {
						nb[k] = e.iteVal(g, al.Bind[k], out[i].Bind[k])
					}
					out[i].Bind = nb
					out[i].G = tb.Or(out[i].G, g)
					found = true
					break
				}
			}
			if !found {
				al.G = g
				out = append(out, al)
			}
		}
		return &FuncV{out}
	case nil:
		return b
	}
	panic(fmt.Sprintf("iteVal: unhandled %T", a))
}

func (e *Engine) mergeRefs(c, nc *Term, xa, ya []RefAlt) []RefAlt {
	tb := e.tb
	out := make([]RefAlt, 0, len(xa)+len(ya))
	for _, al := range xa {
		g := tb.And(c, al.G)
		if !g.IsFalse() {
			out = append(out, RefAlt{g, al.Obj})
		}
	}
	for _, al := range ya {
		g := tb.And(nc, al.G)
		if g.IsFalse() {
			continue
		}
		found := false
		for i := range out {
			if out[i].Obj == al.Obj {
				out[i].G = tb.Or(out[i].G, g)
				found = true
				break
			}
		}
		if !found {
			out = append(out, RefAlt{g, al.Obj})
		}
	}
	return out
}

// mergeMany merges values under pairwise disjoint guards (the last acts as default).
func (e *Engine) mergeMany(gs []*Term, vs []Value) Value {
	if len(vs) == 0 {
		return nil
	}
	r := vs[len(vs)-1]
	for i := len(vs) - 2; i >= 0; i-- {
		r = e.iteVal(gs[i], vs[i], r)
	}
	return r
}

// restrict drops alternatives whose guard contradicts g syntactically (cheap pruning).
func (e *Engine) restrictPtr(p *Ptr, g *Term) *Ptr {
	if len(p.Alts) == 1 {
		return p
	}
	out := make([]PtrAlt, 0, len(p.Alts))
	for _, a := range p.Alts {
		if !e.tb.And(g, a.G).IsFalse() {
			out = append(out, a)
		}
	}
	return &Ptr{out}
}

// ---------------------------------------------------------------------------------------------
// Equality

func (e *Engine) strAltEq(a, b StrAlt) *Term {
	tb := e.tb
	if a.Sym == nil && b.Sym == nil {
		return tb.Bool(a.S == b.S)
	}
	la, lb := len(a.S), len(b.S)
	if a.Sym != nil {
		la = len(a.Sym)
	}
	if b.Sym != nil {
		lb = len(b.Sym)
	}
	if la != lb {
		return tb.False
	}
	r := tb.True
	for i := 0; i < la; i++ {
		r = tb.And(r, tb.Eq(e.strByte(a, i), e.strByte(b, i)))
	}
	return r
}

func (e *Engine) strByte(a StrAlt, i int) *Term {
	if a.Sym != nil {
		return a.Sym[i]
	}
	return e.tb.BVConst(uint64(a.S[i]), 8)
}

func (e *Engine) valEq(a, b Value) *Term {
	tb := e.tb
	switch x := a.(type) {
	case *Term:
		y := b.(*Term)
		if x.S.K == SFP {
			return tb.FPCmp(OpFEQ, x, y)
		}
		return tb.Eq(x, y)
	case *Ptr:
		y := b.(*Ptr)
		r := tb.False
		for _, p := range x.Alts {
			for _, q := range y.Alts {
				if p.Obj != q.Obj || len(p.Path) != len(q.Path) {
					continue
				}
				same := tb.True
				for i := range p.Path {
					pi, qi := p.Path[i], q.Path[i]
					if pi.Sym == nil && qi.Sym == nil {
						if pi.Idx != qi.Idx {
							same = tb.False
						}
					} else {
						same = tb.And(same, tb.Eq(e.pathIdxTerm(pi), e.pathIdxTerm(qi)))
					}
				}
				r = tb.Or(r, tb.And(p.G, q.G, same))
			}
		}
		return r
	case *StructV:
		y := b.(*StructV)
		r := tb.True
		for i := range x.F {
			r = tb.And(r, e.valEq(x.F[i], y.F[i]))
		}
		return r
	case *ArrayV:
		y := b.(*ArrayV)
		r := tb.True
		for i := range x.E {
			r = tb.And(r, e.valEq(x.E[i], y.E[i]))
		}
		return r
	case *StrV:
		y := b.(*StrV)
		r := tb.False
		for _, p := range x.Alts {
			for _, q := range y.Alts {
				g := tb.And(p.G, q.G)
				if g.IsFalse() {
					continue
				}
				r = tb.Or(r, tb.And(g, e.strAltEq(p, q)))
			}
		}
		return r
	case *MapV:
		y := b.(*MapV)
		return e.refEq(x.Alts, y.Alts)
	case *ChanV:
		y := b.(*ChanV)
		return e.refEq(x.Alts, y.Alts)
	case *IfaceV:
		y := b.(*IfaceV)
		r := tb.False
		for _, p := range x.Alts {
			for _, q := range y.Alts {
				g := tb.And(p.G, q.G)
				if g.IsFalse() {
					continue
				}
				if p.T == nil || q.T == nil {
					if p.T == nil && q.T == nil {
						r = tb.Or(r, g)
					}
					continue
				}
				if !types.Identical(p.T, q.T) {
					continue
				}
				r = tb.Or(r, tb.And(g, e.valEq(p.V, q.V)))
			}
		}
		return r
	case *FuncV:
		// only comparison with nil is legal
		y := b.(*FuncV)
		r := tb.False
		for _, p := range x.Alts {
			for _, q := range y.Alts {
				pn := p.Fn == nil && p.Builtin == ""
				qn := q.Fn == nil && q.Builtin == ""
				if pn && qn {
					r = tb.Or(r, tb.And(p.G, q.G))
				}
			}
		}
		return r
	case *SliceV:
		// only nil comparison
		y := b.(*SliceV)
		r := tb.False
		for _, p := range x.Alts {
			for _, q := range y.Alts {
				if p.Arr == nil && q.Arr == nil {
					r = tb.Or(r, tb.And(p.G, q.G))
				}
			}
		}
		return r
	}
	panic(fmt.Sprintf("valEq: unhandled %T", a))
}

func (e *Engine) refEq(xa, ya []RefAlt) *Term {
	r := e.tb.False
	for _, p := range xa {
		for _, q := range ya {
			if p.Obj == q.Obj {
				r = e.tb.Or(r, e.tb.And(p.G, q.G))
			}
		}
	}
	return r
}

func (e *Engine) pathIdxTerm(p PathEl) *Term {
	if p.Sym != nil {
		return p.Sym
	}
	return e.tb.Int(int64(p.Idx))
}

// ---------------------------------------------------------------------------------------------
// Debug printing

func (e *Engine) show(v Value) string {
	switch x := v.(type) {
	case nil:
		return "<nil>"
	case *Term:
		if x.IsConst() {
			if x.S.K == SFP {
				return fmt.Sprint(x.FPVal())
			}
			if x.S.K == SBool {
				return fmt.Sprint(x.C == 1)
			}
			return fmt.Sprint(x.SignedVal())
		}
		return fmt.Sprintf("<t%d>", x.ID)
	case *StrV:
		var ss []string
		for _, a := range x.Alts {
			if a.Sym != nil {
				ss = append(ss, fmt.Sprintf("sym[%d]", len(a.Sym)))
			} else {
				ss = append(ss, fmt.Sprintf("%q", a.S))
			}
		}
		return strings.Join(ss, "|")
	case *StructV:
		var ss []string
		for _, f := range x.F {
			ss = append(ss, e.show(f))
		}
		return "{" + strings.Join(ss, ",") + "}"
	case *Ptr:
		var ss []string
		for _, a := range x.Alts {
			if a.Obj == nil {
				ss = append(ss, "nil")
			} else {
				ss = append(ss, "&"+a.Obj.String())
			}
		}
		return strings.Join(ss, "|")
	case *TupleV:
		var ss []string
		for _, f := range x.E {
			ss = append(ss, e.show(f))
		}
		return "(" + strings.Join(ss, ",") + ")"
	}
	return fmt.Sprintf("%T", v)
}
