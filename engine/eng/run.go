package eng

import (
	"strconv"
	"fmt"
	"math"
	"os"
	"runtime/debug"
	"sort"
	"strings"
	"sync"
	"time"
)

type Violation struct {
	Harness string            `json:"harness"`
	Kind    string            `json:"kind"`
	Label   string            `json:"label"`
	Pos     string            `json:"pos"`
	Values  map[string]uint64 `json:"values"`
	Pretty  map[string]string `json:"pretty"`
	Solver  string            `json:"solver"`
	Known   string            `json:"known,omitempty"`
	Replay  string            `json:"replay,omitempty"`
	Reproduced bool           `json:"reproduced"`
	ReplayOut  string         `json:"replay_output,omitempty"`
}

type Sample struct {
	Harness string            `json:"harness"`
	Cover   string            `json:"cover"`
	Values  map[string]string `json:"values"`
	raw     map[string]uint64
	ValidatedNatively bool    `json:"validated_natively"`
}

type HarnessResult struct {
	Name        string
	Prop        string
	Status      string // ok | violation | inconclusive
	Reason      string
	Obligations int
	Trivial     int
	Discharged  int
	Sat         int
	Unknown     int
	Asserts     int
	CoversTotal int
	CoversHit   int
	Samples     []*Sample
	Violations  []*Violation
	KnownLines  []string
	Blocks      int
	Instrs      int
	Terms       int
	Funcs       map[string]int
	Stubs       map[string]int
	Notes       map[string]int
	Queries     int
	FeasQueries int
	SolverTime  map[string]float64
	Wall        float64
	ExecWall    float64
	Nondets     int
	Unwind      int
	Schedules   int
	Assumptions int
	NoNative    bool
}

type RunConfig struct {
	Tier      string
	TimeoutMs int
	Workers   int
	Trace     bool
	Known     []KnownFinding
	Fixed     map[string]uint64 // engine-side concrete replay: nondet values fixed to these
}

type KnownFinding struct {
	Status   string `json:"status"` // known | fixed
	Property string `json:"property"`
	Harness  string `json:"harness,omitempty"`
	Label    string `json:"label,omitempty"` // substring of the obligation label
	Pos      string `json:"pos,omitempty"`   // substring of the obligation position
	Region   []RegionAtom `json:"region,omitempty"`
	What     string `json:"what"`
	Commit   string `json:"commit,omitempty"`
}

// RegionAtom constrains one nondet variable: lo <= var <= hi (signed) or bool value.
type RegionAtom struct {
	Var string `json:"var"`
	Lo  int64  `json:"lo"`
	Hi  int64  `json:"hi"`
}

func tierNum(t string) int64 {
	if t == "thorough" {
		return 1
	}
	return 0
}

// RunHarness evaluates one harness function symbolically and discharges its obligations.
func RunHarness(l *Loaded, h *HarnessFn, cfg RunConfig) (res *HarnessResult) {
	t0 := time.Now()
	res = &HarnessResult{Name: h.Name, Prop: h.Prop, Status: "ok", SolverTime: map[string]float64{}}
	if h.Threads {
		runThreadHarness(l, h, cfg, res)
		res.Wall = time.Since(t0).Seconds()
		return res
	}
	e := NewEngine(l.Prog, Options{Trace: cfg.Trace})
	e.harness = h.Name
	e.tier = tierNum(cfg.Tier)
	e.fixed = cfg.Fixed
	defer func() {
		if e.feas != nil {
			res.SolverTime[e.feas.Kind] += e.feas.Time.Seconds()
			res.FeasQueries = e.feas.Queries
			e.feas.Close()
		}
		res.Wall = time.Since(t0).Seconds()
	}()
	func() {
		defer func() {
			if r := recover(); r != nil {
				if u, ok := r.(*Unsupported); ok {
					res.Status = "inconclusive"
					res.Reason = "unsupported: " + u.Msg
					return
				}
				res.Status = "inconclusive"
				res.Reason = fmt.Sprintf("engine error: %v at %s\n%s", r, e.posStr(e.curPos), trimStack(string(debug.Stack())))
			}
		}()
		e.runInit(l)
		e.CallFunction(h.Fn, nil, nil)
	}()
	res.ExecWall = time.Since(t0).Seconds()
	if os.Getenv("VERIF_PROGRESS") != "" {
		fmt.Fprintf(os.Stderr, "%s: exec done %.1fs terms=%d obls=%d covers=%d status=%s %s\n", h.Name, res.ExecWall, e.tb.NumTerms(), len(e.obls), len(e.covers), res.Status, res.Reason)
	}
	res.Blocks, res.Instrs, res.Terms = e.nBlocks, e.nInstrs, e.tb.NumTerms()
	res.Funcs, res.Stubs, res.Notes = e.funcs, e.stubs, e.notes
	res.Nondets = len(e.nondets)
	res.Asserts = e.asserts
	res.Unwind = e.opts.Unwind
	res.NoNative = e.NoNative
	if res.Status != "ok" {
		return res
	}
	e.discharge(res, cfg)
	return res
}

func trimStack(s string) string {
	lines := strings.Split(s, "\n")
	var out []string
	for _, ln := range lines {
		if strings.Contains(ln, "symgo/eng") && !strings.Contains(ln, "run.go") {
			out = append(out, strings.TrimSpace(ln))
		}
		if len(out) >= 12 {
			break
		}
	}
	return strings.Join(out, "\n")
}

func (e *Engine) modelVars() []*Term {
	var vs []*Term
	for _, n := range e.nondets {
		if n.T.Op == OpVar {
			vs = append(vs, n.T)
		}
	}
	return vs
}

func (e *Engine) pretty(m Model) (map[string]uint64, map[string]string) {
	raw := map[string]uint64{}
	pr := map[string]string{}
	for _, n := range e.nondets {
		v, ok := m[n.Name]
		if !ok {
			continue
		}
		raw[n.Name] = v
		switch n.Kind {
		case "bool":
			pr[n.Name] = fmt.Sprint(v != 0)
		case "float":
			pr[n.Name] = fmt.Sprint(math.Float64frombits(v))
		case "byte":
			pr[n.Name] = fmt.Sprint(v)
		default:
			pr[n.Name] = fmt.Sprint(int64(v))
		}
	}
	return raw, pr
}

func (e *Engine) discharge(res *HarnessResult, cfg RunConfig) {
	tb := e.tb
	pool := NewPool(cfg.TimeoutMs)
	defer func() {
		pool.Close()
		res.Queries += pool.Queries
		for k, v := range pool.TimeBy {
			res.SolverTime[k] += v.Seconds()
		}
	}()
	vars := e.modelVars()
	// 1. assumptions satisfiable
	res.Assumptions = countConj(e.assume)
	if e.assume.IsTrue() {
		// nothing assumed: trivially satisfiable
	} else if r, _, _ := pool.Solve([]*Term{e.assume}, nil); r != "sat" {
		res.Status = "inconclusive"
		res.Reason = "assumptions are not satisfiable (" + r + "): harness is vacuous"
		return
	}
	// 2. covers (including reachability twins of assertions)
	type job struct {
		c *Cover
		o *Obligation
	}
	workers := cfg.Workers
	if workers <= 0 {
		workers = 4
	}
	var wg sync.WaitGroup
	run := func(jobs []job, f func(j job)) {
		ch := make(chan job)
		for w := 0; w < workers; w++ {
			wg.Add(1)
			go func() {
				defer wg.Done()
				for j := range ch {
					f(j)
				}
			}()
		}
		for _, j := range jobs {
			ch <- j
		}
		close(ch)
		wg.Wait()
	}
	var cjobs []job
	seenReach := map[int]bool{}
	for _, c := range e.covers {
		if strings.HasPrefix(c.Label, "reach:") {
			// dedupe identical path conditions
			if seenReach[c.Cond.ID] {
				c.Result = "dup"
				continue
			}
			seenReach[c.Cond.ID] = true
			if c.Cond.IsTrue() {
				c.Result = "sat"
				continue
			}
		}
		if c.Cond.IsTrue() && c.Assume.IsTrue() {
			c.Result = "sat"
			c.Model = Model{}
			continue
		}
		cjobs = append(cjobs, job{c: c})
	}
	for _, j := range cjobs {
		j.c.Assume.HasFPOp()
		j.c.Cond.HasFPOp()
	}
	for _, o := range e.obls {
		o.Assume.HasFPOp()
		o.Cond.HasFPOp()
	}
	run(cjobs, func(j job) {
		var vs []*Term
		if !strings.HasPrefix(j.c.Label, "reach:") {
			vs = vars
		}
		r, m, _ := pool.Solve([]*Term{j.c.Assume, j.c.Cond}, vs)
		j.c.Result, j.c.Model = r, m
	})
	// an assertion site inside a loop has one reachability twin per unrolled instance: the site is reached
	// if any instance is
	reachOK := map[string]bool{}
	for _, c := range e.covers {
		if strings.HasPrefix(c.Label, "reach:") && (c.Result == "sat" || c.Result == "dup") {
			reachOK[c.Label+"@"+c.Pos] = true
		}
	}
	for _, c := range e.covers {
		isReach := strings.HasPrefix(c.Label, "reach:")
		if c.Result == "dup" {
			continue
		}
		if isReach && c.Result != "sat" && reachOK[c.Label+"@"+c.Pos] {
			continue
		}
		if !isReach {
			res.CoversTotal++
		}
		switch c.Result {
		case "sat":
			if !isReach {
				res.CoversHit++
				raw, pr := e.pretty(c.Model)
				res.Samples = append(res.Samples, &Sample{Harness: e.harness, Cover: c.Label, Values: pr, raw: raw})
			}
		case "unsat":
			if e.threadRun {
				// per-execution: reachability and cover goals are judged over all executions by the driver
				continue
			}
			res.Status = "inconclusive"
			if isReach {
				res.Reason = "vacuous: assertion never reached: " + strings.TrimPrefix(c.Label, "reach:") + " at " + c.Pos
			} else {
				res.Reason = "cover goal unreachable: " + c.Label + " at " + c.Pos
			}
		default:
			if res.Status == "ok" {
				res.Status = "inconclusive"
				res.Reason = "solver unknown on cover/reachability: " + c.Label
			}
		}
	}
	// 3. safety obligations
	var live []*Obligation
	res.Obligations += e.trivObls
	res.Trivial += e.trivObls
	res.Discharged += e.trivObls
	for _, o := range e.obls {
		res.Obligations++
		if o.Cond.IsFalse() {
			res.Trivial++
			res.Discharged++
			o.Result = "unsat"
			continue
		}
		live = append(live, o)
	}
	if len(live) > 0 {
		// obligations are closed in chunks: one query for the disjunction of a chunk; only a chunk that does not
		// close is split into individual queries. Chunks run in parallel.
		// wall-time budget per harness for the safety obligations: once it is used up the remaining obligations are
		// reported "unknown" (harness INCONCLUSIVE) instead of queueing behind 120 s timeouts for hours; what was found
		// until then (violations included) is still reported
		budget := 1800 * time.Second
		if cfg.Tier == "thorough" {
			budget = 10800 * time.Second
		}
		if s := os.Getenv("VERIF_HARNESS_BUDGET_S"); s != "" {
			if n, err := strconv.Atoi(s); err == nil {
				budget = time.Duration(n) * time.Second
			}
		}
		deadline := time.Now().Add(budget)
		solveOne := func(o *Obligation) {
			if time.Now().After(deadline) {
				o.Result, o.Solver = "unknown", "harness budget exhausted"
				return
			}
			if o.Assume.IsTrue() && o.Cond.IsTrue() {
				// concrete execution (engine replay with fixed values): the obligation fails outright
				o.Result, o.Model, o.Solver = "sat", Model{}, "none"
				return
			}
			t0 := time.Now()
			r, m, k := pool.Solve([]*Term{o.Assume, o.Cond}, vars)
			if d := time.Since(t0); d > 5*time.Second && os.Getenv("VERIF_PROGRESS") != "" {
				fmt.Fprintf(os.Stderr, "  slow obligation: %s %.1fs kind=%s label=%q pos=%s\n", r, d.Seconds(), o.Kind, o.Label, o.Pos)
			}
			o.Result, o.Model, o.Solver = r, m, k
		}
		size := 24
		if len(live) <= 48 {
			size = len(live)
		}
		type chunkT struct {
			obls []*Obligation
			disj *Term
		}
		var chunks []*chunkT
		for lo := 0; lo < len(live); lo += size {
			hi := lo + size
			if hi > len(live) {
				hi = len(live)
			}
			c := &chunkT{obls: live[lo:hi]}
			var dj []*Term
			for _, o := range c.obls {
				dj = append(dj, tb.And(o.Assume, o.Cond))
			}
			c.disj = tb.Or(dj...)
			c.disj.HasFPOp()
			chunks = append(chunks, c)
		}
		ch := make(chan *chunkT)
		var wg2 sync.WaitGroup
		for w := 0; w < workers; w++ {
			wg2.Add(1)
			go func() {
				defer wg2.Done()
				for c := range ch {
					if c.disj.IsFalse() {
						for _, o := range c.obls {
							o.Result = "unsat"
						}
						continue
					}
					if len(c.obls) > 1 && time.Now().Before(deadline) {
						if r, _, _ := pool.Solve([]*Term{c.disj}, nil); r == "unsat" {
							for _, o := range c.obls {
								o.Result = "unsat"
							}
							continue
						}
					}
					for _, o := range c.obls {
						solveOne(o)
					}
				}
			}()
		}
		for _, c := range chunks {
			ch <- c
		}
		close(ch)
		wg2.Wait()
	}
	for _, o := range live {
		switch o.Result {
		case "unsat":
			res.Discharged++
		case "sat":
			res.Sat++
			raw, pr := e.pretty(o.Model)
			v := &Violation{Harness: e.harness, Kind: o.Kind, Label: o.Label, Pos: o.Pos, Values: raw, Pretty: pr, Solver: o.Solver}
			// known findings: matched by label/pos, optionally by region, then re-solved with the regions excluded
			var regions []*Term
			matched := ""
			for _, k := range cfg.Known {
				if k.Status != "known" || k.Property != propOf(e.harness) {
					continue
				}
				if k.Harness != "" && !strings.Contains(e.harness, k.Harness) {
					continue
				}
				if k.Label != "" && !strings.Contains(o.Label, k.Label) {
					continue
				}
				if k.Pos != "" && !strings.Contains(o.Pos, k.Pos) {
					continue
				}
				reg := tb.True
				for _, a := range k.Region {
					var vt *Term
					for _, n := range e.nondets {
						if n.Name == a.Var {
							vt = n.T
						}
					}
					if vt == nil {
						continue
					}
					if vt.S.K == SBool {
						reg = tb.And(reg, tb.Eq(vt, tb.Bool(a.Lo != 0)))
					} else {
						w := vt.S.W
						reg = tb.And(reg, tb.Cmp(OpSLE, tb.BVConst(uint64(a.Lo), w), vt), tb.Cmp(OpSLE, vt, tb.BVConst(uint64(a.Hi), w)))
					}
				}
				regions = append(regions, reg)
				matched = k.What
			}
			if len(regions) > 0 {
				excl := tb.True
				anyReg := tb.False
				for _, r := range regions {
					excl = tb.And(excl, tb.Not(r))
					anyReg = tb.Or(anyReg, r)
				}
				// is the known region itself still failing?
				rIn, _, _ := pool.Solve([]*Term{o.Assume, o.Cond, anyReg}, nil)
				if rIn == "sat" {
					res.KnownLines = append(res.KnownLines, fmt.Sprintf("KNOWN-FINDING: property=%s %s [%s: %s at %s]", propOf(e.harness), matched, e.harness, o.Label, o.Pos))
				}
				rOut, mOut, kOut := pool.Solve([]*Term{o.Assume, o.Cond, excl}, vars)
				switch rOut {
				case "unsat":
					v.Known = matched
				case "sat":
					raw, pr := e.pretty(mOut)
					v.Values, v.Pretty, v.Solver = raw, pr, kOut
				default:
					res.Unknown++
					if res.Status == "ok" {
						res.Status = "inconclusive"
						res.Reason = "solver unknown when excluding known-finding region for: " + o.Label
					}
					v.Known = matched
				}
			}
			res.Violations = append(res.Violations, v)
			if v.Known == "" {
				res.Status = "violation"
			}
		default:
			res.Unknown++
			if res.Status == "ok" {
				res.Status = "inconclusive"
				res.Reason = fmt.Sprintf("solver unknown/timeout on obligation %s at %s", o.Label, o.Pos)
			}
		}
	}
	sort.Slice(res.Violations, func(i, j int) bool { return res.Violations[i].Pos < res.Violations[j].Pos })
}

func countConj(t *Term) int {
	if t.Op == OpAnd {
		return len(t.Args)
	}
	if t.IsTrue() {
		return 0
	}
	return 1
}

func propOf(harness string) string {
	// vpH_C20_step -> C20
	parts := strings.Split(harness, "_")
	if len(parts) >= 2 {
		return parts[1]
	}
	return ""
}

var _ = os.Stderr

func SampleRaw(s *Sample) map[string]uint64 { return s.raw }


// runThreadHarness explores a thread-mode harness: one execution per decision sequence (scheduling choices and
// symbolic branch sides), depth-first; every execution's obligations are closed by the solver.
func runThreadHarness(l *Loaded, h *HarnessFn, cfg RunConfig, res *HarnessResult) {
	maxRuns := 4000
	if cfg.Tier == "thorough" {
		maxRuns = 40000
	}
	var prefix []int
	if cfg.Fixed != nil {
		// replay of one execution: the decisions are part of the recorded values
		for k := 0; ; k++ {
			v, ok := cfg.Fixed[fmt.Sprintf("decision#%d", k)]
			if !ok {
				break
			}
			if cfg.Fixed[fmt.Sprintf("decision_is_branch#%d", k)] != 0 {
				continue // with concrete values the branch is decided by the data, not by the exploration
			}
			prefix = append(prefix, int(v))
		}
		maxRuns = 1
	}
	coverHit := map[string]bool{}
	coverSeen := map[string]*Sample{}
	res.Funcs, res.Stubs, res.Notes = map[string]int{}, map[string]int{}, map[string]int{}
	runs := 0
	for ; ; runs++ {
		if runs >= maxRuns {
			if cfg.Fixed == nil {
				res.Status = "inconclusive"
				res.Reason = fmt.Sprintf("thread mode: more than %d executions", maxRuns)
			}
			break
		}
		e := NewEngine(l.Prog, Options{Trace: cfg.Trace})
		e.harness = h.Name
		e.tier = tierNum(cfg.Tier)
		e.fixed = cfg.Fixed
		e.threadRun = true
		var ti *threadImpl
		failed := false
		func() {
			defer func() {
				if r := recover(); r != nil {
					failed = true
					res.Status = "inconclusive"
					if u, ok := r.(*Unsupported); ok {
						res.Reason = "unsupported: " + u.Msg
					} else {
						res.Reason = fmt.Sprintf("engine error: %v at %s\n%s", r, e.posStr(e.curPos), trimStack(string(debug.Stack())))
					}
				}
			}()
			e.runInit(l)
			ti = newThreadImpl(e, prefix)
			e.threads = &threadState{ti}
			e.CallFunction(h.Fn, nil, nil)
		}()
		if ti != nil {
			ti.shutdown()
		}
		if e.feas != nil {
			res.SolverTime[e.feas.Kind] += e.feas.Time.Seconds()
			res.FeasQueries += e.feas.Queries
			e.feas.Close()
		}
		if failed {
			break
		}
		res.Blocks += e.nBlocks
		res.Instrs += e.nInstrs
		res.Terms += e.tb.NumTerms()
		res.Asserts += e.asserts
		res.Nondets = len(e.nondets)
		for k, v := range e.funcs {
			res.Funcs[k] += v
		}
		for k, v := range e.stubs {
			res.Stubs[k] += v
		}
		for k, v := range e.notes {
			res.Notes[k] += v
		}
		sub := &HarnessResult{Name: h.Name, Prop: h.Prop, Status: "ok", SolverTime: map[string]float64{}}
		e.discharge(sub, cfg)
		res.Obligations += sub.Obligations
		res.Trivial += sub.Trivial
		res.Discharged += sub.Discharged
		res.Sat += sub.Sat
		res.Unknown += sub.Unknown
		res.Queries += sub.Queries
		for k, v := range sub.SolverTime {
			res.SolverTime[k] += v
		}
		for _, s := range sub.Samples {
			if !coverHit[s.Cover] {
				coverHit[s.Cover] = true
				coverSeen[s.Cover] = s
			}
		}
		for _, c := range e.covers {
			if !strings.HasPrefix(c.Label, "reach:") {
				if _, ok := coverHit[c.Label]; !ok {
					coverHit[c.Label] = false
				}
			}
		}
		for _, v := range sub.Violations {
			for k, d := range ti.taken {
				v.Values[fmt.Sprintf("decision#%d", k)] = uint64(d.chosen)
				if d.branch {
					v.Values[fmt.Sprintf("decision_is_branch#%d", k)] = 1
				}
			}
			v.Pretty["schedule"] = fmt.Sprint(decisionList(ti.taken))
			if len(res.Violations) < 8 {
				res.Violations = append(res.Violations, v)
			}
			if v.Known == "" {
				res.Status = "violation"
			}
		}
		res.KnownLines = append(res.KnownLines, sub.KnownLines...)
		if sub.Status == "inconclusive" && res.Status == "ok" {
			res.Status = "inconclusive"
			res.Reason = sub.Reason
		}
		// next decision sequence (depth-first)
		k := len(ti.taken) - 1
		for k >= 0 && ti.taken[k].chosen+1 >= ti.taken[k].n {
			k--
		}
		if k < 0 || cfg.Fixed != nil {
			runs++
			break
		}
		prefix = prefix[:0]
		for i := 0; i < k; i++ {
			prefix = append(prefix, ti.taken[i].chosen)
		}
		prefix = append(prefix, ti.taken[k].chosen+1)
		if res.Status == "violation" && len(res.Violations) >= 3 {
			runs++
			break // enough counterexamples
		}
	}
	res.Schedules = runs
	for label, hit := range coverHit {
		res.CoversTotal++
		if hit {
			res.CoversHit++
			res.Samples = append(res.Samples, coverSeen[label])
		} else if res.Status == "ok" && cfg.Fixed == nil {
			res.Status = "inconclusive"
			res.Reason = "cover goal unreachable in every execution: " + label
		}
	}
}

func decisionList(ds []decision) []int {
	out := make([]int, len(ds))
	for i, d := range ds {
		out[i] = d.chosen
	}
	return out
}
