package eng

import (
	"os"
	"fmt"
	"go/token"
	"go/types"
	"strings"

	"golang.org/x/tools/go/ssa"
)

// ---------------------------------------------------------------------------------------------
// Maps

type keyAlt struct {
	g *Term
	k Value
}

// keyAlts decomposes union keys into alternatives with concrete payloads where possible.
func (e *Engine) keyAlts(k Value) []keyAlt {
	tb := e.tb
	switch x := k.(type) {
	case *StrV:
		if len(x.Alts) > 1 {
			out := make([]keyAlt, len(x.Alts))
			for i, a := range x.Alts {
				out[i] = keyAlt{a.G, &StrV{[]StrAlt{{G: tb.True, S: a.S, Sym: a.Sym}}}}
			}
			return out
		}
	case *Ptr:
		if len(x.Alts) > 1 {
			out := make([]keyAlt, len(x.Alts))
			for i, a := range x.Alts {
				out[i] = keyAlt{a.G, &Ptr{[]PtrAlt{{G: tb.True, Obj: a.Obj, Path: a.Path}}}}
			}
			return out
		}
	case *IfaceV:
		if len(x.Alts) > 1 {
			var out []keyAlt
			for _, a := range x.Alts {
				out = append(out, keyAlt{a.G, &IfaceV{[]IfaceAlt{{G: tb.True, T: a.T, V: a.V}}}})
			}
			return out
		}
	}
	return []keyAlt{{tb.True, k}}
}

func (e *Engine) mapLookup(m *MapV, key Value, vt types.Type) (Value, *Term) {
	tb := e.tb
	zero := e.zero(vt)
	var res Value = zero
	ok := tb.False
	for _, ma := range m.Alts {
		if ma.Obj == nil {
			continue
		}
		if tb.And(e.G, ma.G).IsFalse() {
			continue
		}
		for _, en := range ma.Obj.Ents {
			if en.Present.IsFalse() {
				continue
			}
			eq := e.valEq(key, en.Key)
			if eq.IsFalse() {
				continue
			}
			hit := tb.And(ma.G, en.Present, eq)
			if hit.IsFalse() {
				continue
			}
			res = e.iteVal(hit, en.Val, res)
			ok = tb.Or(ok, hit)
		}
	}
	return res, ok
}

func (e *Engine) mapUpdate(m *MapV, key, val Value, pos token.Pos) {
	tb := e.tb
	nilG := tb.False
	for _, ma := range m.Alts {
		if ma.Obj == nil {
			nilG = tb.Or(nilG, ma.G)
		}
	}
	e.runtimePanic("assignment to entry in nil map", pos, nilG)
	for _, ma := range m.Alts {
		if ma.Obj == nil {
			continue
		}
		g0 := tb.And(e.G, ma.G)
		if g0.IsFalse() {
			continue
		}
		for _, ka := range e.keyAlts(key) {
			g := tb.And(g0, ka.g)
			if g.IsFalse() {
				continue
			}
			e.mapSet(ma.Obj, ka.k, val, g)
		}
	}
}

func (e *Engine) mapSet(o *Object, key, val Value, g *Term) {
	tb := e.tb
	rest := g
	for _, en := range o.Ents {
		eq := e.valEq(key, en.Key)
		if eq.IsFalse() {
			continue
		}
		h := tb.And(rest, eq)
		if h.IsFalse() {
			continue
		}
		en.Val = e.iteVal(h, val, en.Val)
		en.Present = tb.Or(en.Present, h)
		rest = tb.And(rest, tb.Not(eq))
		if rest.IsFalse() {
			return
		}
	}
	o.Ents = append(o.Ents, &MapEntry{Key: key, Present: rest, Val: val})
}

func (e *Engine) mapDelete(m *MapV, key Value) {
	tb := e.tb
	for _, ma := range m.Alts {
		if ma.Obj == nil {
			continue
		}
		g := tb.And(e.G, ma.G)
		if g.IsFalse() {
			continue
		}
		for _, en := range ma.Obj.Ents {
			if en.Present.IsFalse() {
				continue
			}
			eq := e.valEq(key, en.Key)
			if eq.IsFalse() {
				continue
			}
			en.Present = tb.And(en.Present, tb.Not(tb.And(g, eq)))
		}
	}
}

func (e *Engine) mapLen(m *MapV) *Term {
	tb := e.tb
	total := tb.Int(0)
	for _, ma := range m.Alts {
		if ma.Obj == nil {
			continue
		}
		n := tb.Int(0)
		for _, en := range ma.Obj.Ents {
			n = tb.BVOp(OpAdd, n, tb.Ite(en.Present, tb.Int(1), tb.Int(0)))
		}
		total = tb.Ite(ma.G, n, total)
	}
	return total
}

func (e *Engine) lookup(fr *Frame, x *ssa.Lookup) Value {
	base := e.operand(fr, x.X)
	switch b := base.(type) {
	case *MapV:
		vt := x.X.Type().Underlying().(*types.Map).Elem()
		v, ok := e.mapLookup(b, e.operand(fr, x.Index), vt)
		if x.CommaOk {
			return &TupleV{[]Value{v, ok}}
		}
		return v
	case *StrV:
		idx := e.toInt64(e.operand(fr, x.Index).(*Term), x.Index.Type())
		return e.strIndex(b, idx, x.Pos())
	}
	panic(e.unsupported("Lookup on %T", base))
}

// ---------------------------------------------------------------------------------------------
// Range / Next

type IterV struct {
	IsStr bool
	Str   string
	Pos   int
	// map: slot-wise
	Slots []iterSlot
}

type iterSlot struct {
	MG *Term // guard of the map alternative
	En *MapEntry
}

func (e *Engine) makeRange(fr *Frame, x *ssa.Range) Value {
	base := e.operand(fr, x.X)
	switch b := base.(type) {
	case *StrV:
		if len(b.Alts) != 1 || b.Alts[0].Sym != nil {
			panic(e.unsupported("range over symbolic string"))
		}
		return &IterV{IsStr: true, Str: b.Alts[0].S}
	case *MapV:
		it := &IterV{}
		for _, ma := range b.Alts {
			if ma.Obj == nil {
				continue
			}
			for _, en := range ma.Obj.Ents {
				it.Slots = append(it.Slots, iterSlot{ma.G, en})
				if os.Getenv("VERIF_PROGRESS") == "3" {
					fmt.Fprintf(os.Stderr, "  slot map=%d key=%s present=%s\n", ma.Obj.ID, e.show(en.Key), en.Present.Dump(1))
				}
			}
		}
		return it
	}
	panic(e.unsupported("range over %T", base))
}

func (e *Engine) next(fr *Frame, x *ssa.Next) Value {
	tb := e.tb
	it := e.operand(fr, x.Iter).(*IterV)
	tup := x.Type().(*types.Tuple)
	if it.IsStr {
		if it.Pos >= len(it.Str) {
			return &TupleV{[]Value{tb.False, tb.Int(0), tb.BVConst(0, 32)}}
		}
		for i, r := range it.Str[it.Pos:] {
			_ = i
			idx := it.Pos
			it.Pos += len(string(r))
			return &TupleV{[]Value{tb.True, tb.Int(int64(idx)), tb.BVConst(uint64(r), 32)}}
		}
	}
	kt, vt := tup.At(1).Type(), tup.At(2).Type()
	if os.Getenv("VERIF_PROGRESS") == "3" {
		fmt.Fprintf(os.Stderr, "next at %s: pos=%d slots=%d\n", e.posStr(x.Pos()), it.Pos, len(it.Slots))
	}
	for it.Pos < len(it.Slots) {
		s := it.Slots[it.Pos]
		it.Pos++
		pres := tb.And(s.MG, s.En.Present)
		if tb.And(e.G, pres).IsFalse() {
			continue
		}
		// find the header block's If to install the skip guard (entry absent: continue with next slot)
		if fr.skipG == nil {
			fr.skipG = map[*ssa.BasicBlock]*Term{}
		}
		fr.skipG[x.Block()] = tb.Not(pres)
		var k, v Value = s.En.Key, s.En.Val
		if isInvalidOrBlank(kt) {
			k = nil
		}
		if isInvalidOrBlank(vt) {
			v = nil
		}
		return &TupleV{[]Value{pres, k, v}}
	}
	delete(fr.skipG, x.Block())
	var kz, vz Value
	if !isInvalidOrBlank(kt) {
		kz = e.zero(kt)
	}
	if !isInvalidOrBlank(vt) {
		vz = e.zero(vt)
	}
	return &TupleV{[]Value{tb.False, kz, vz}}
}

func isInvalidOrBlank(t types.Type) bool {
	b, ok := t.(*types.Basic)
	return ok && b.Kind() == types.Invalid
}

// ---------------------------------------------------------------------------------------------
// Type assertions

func (e *Engine) implements(dyn types.Type, iface *types.Interface) bool {
	if _, ok := e.markerName(dyn); ok {
		return false
	}
	return types.Implements(dyn, iface)
}

func (e *Engine) markerName(t types.Type) (string, bool) {
	if n, ok := t.(*types.Named); ok && n.Obj().Pkg() == nil && strings.HasPrefix(n.Obj().Name(), "symgo.") {
		return strings.TrimPrefix(n.Obj().Name(), "symgo."), true
	}
	return "", false
}

func (e *Engine) typeAssert(fr *Frame, x *ssa.TypeAssert) Value {
	tb := e.tb
	iv := e.operand(fr, x.X).(*IfaceV)
	at := x.AssertedType
	ok := tb.False
	var res Value
	if ai, isIface := at.Underlying().(*types.Interface); isIface {
		var alts []IfaceAlt
		for _, a := range iv.Alts {
			if a.T == nil {
				continue
			}
			match := false
			if mn, isM := e.markerName(a.T); isM {
				// intrinsic objects implement the interface they were created for
				match = e.markerImplements(mn, at)
			} else {
				match = types.Implements(a.T, ai)
			}
			if match {
				alts = append(alts, a)
				ok = tb.Or(ok, a.G)
			}
		}
		if len(alts) == 0 {
			res = e.zero(at)
		} else {
			// add a nil alternative for the failing case to keep the union total
			if !ok.IsTrue() {
				alts = append(alts, IfaceAlt{G: tb.Not(ok)})
			}
			res = &IfaceV{alts}
		}
	} else {
		var gs []*Term
		var vs []Value
		for _, a := range iv.Alts {
			if a.T != nil && types.Identical(a.T, at) {
				gs = append(gs, a.G)
				vs = append(vs, a.V)
				ok = tb.Or(ok, a.G)
			}
		}
		if len(vs) == 0 {
			res = e.zero(at)
		} else {
			if !ok.IsTrue() {
				gs = append(gs, tb.Not(ok))
				vs = append(vs, e.zero(at))
			}
			res = e.mergeMany(gs, vs)
		}
	}
	if x.CommaOk {
		return &TupleV{[]Value{res, ok}}
	}
	e.runtimePanic("interface conversion failed", x.Pos(), tb.Not(ok))
	return res
}

func (e *Engine) markerImplements(marker string, t types.Type) bool {
	switch marker {
	case "ctx":
		return namedIs(t, "context", "Context")
	case "opaque", "err":
		if n, ok := t.(*types.Named); ok && n.Obj().Pkg() == nil && n.Obj().Name() == "error" {
			return true
		}
	case "pubkey":
		return namedIs(t, "github.com/libp2p/go-libp2p/core/crypto", "PubKey")
	}
	return false
}

// ---------------------------------------------------------------------------------------------
// Calls

func (e *Engine) evalCall(fr *Frame, c *ssa.CallCommon, pos token.Pos) Value {
	args := make([]Value, len(c.Args))
	for i, a := range c.Args {
		args[i] = e.operand(fr, a)
	}
	if c.IsInvoke() {
		recv := e.operand(fr, c.Value).(*IfaceV)
		return e.invoke(recv, c.Method, args, pos)
	}
	switch f := c.Value.(type) {
	case *ssa.Builtin:
		return e.builtin(f.Name(), args, c, pos)
	case *ssa.Function:
		return e.callStatic(f, args, nil, pos)
	}
	fv := e.operand(fr, c.Value).(*FuncV)
	return e.callFuncV(fv, args, pos)
}

func (e *Engine) callFuncV(fv *FuncV, args []Value, pos token.Pos) Value {
	tb := e.tb
	if len(fv.Alts) == 1 && fv.Alts[0].G.IsTrue() {
		return e.callFuncAlt(fv.Alts[0], args, pos)
	}
	nilG := tb.False
	for _, a := range fv.Alts {
		if a.Fn == nil && a.Builtin == "" {
			nilG = tb.Or(nilG, a.G)
		}
	}
	e.runtimePanic("call of nil function", pos, nilG)
	G0 := e.G
	var gs []*Term
	var vs []Value
	exit := tb.False
	for _, a := range fv.Alts {
		if a.Fn == nil && a.Builtin == "" {
			continue
		}
		g := tb.And(G0, a.G)
		if g.IsFalse() {
			continue
		}
		e.G = g
		v := e.callFuncAlt(a, args, pos)
		if !e.G.IsFalse() {
			gs = append(gs, a.G)
			vs = append(vs, v)
			exit = tb.Or(exit, e.G)
		}
	}
	e.G = exit
	if len(vs) == 0 || vs[0] == nil {
		return nil
	}
	return e.mergeMany(gs, vs)
}

func (e *Engine) callFuncAlt(a FuncAlt, args []Value, pos token.Pos) Value {
	if a.Fn == nil && a.Builtin == "" {
		e.runtimePanic("call of nil function", pos, e.tb.True)
		return nil
	}
	if a.Builtin != "" {
		if in, ok := e.intr[a.Builtin]; ok {
			if a.Recv != nil {
				args = append([]Value{a.Recv}, args...)
			}
			return in(e, args, pos, nil)
		}
		panic(e.unsupported("call of builtin value %s", a.Builtin))
	}
	return e.callStatic(a.Fn, args, a.Bind, pos)
}

func (e *Engine) callStatic(fn *ssa.Function, args []Value, bind []Value, pos token.Pos) Value {
	name := fn.String()
	if fn.Origin() != nil {
		// generic instantiation: also try the origin's name for intrinsics
		if in, ok := e.intr[fn.Origin().String()]; ok {
			e.stubs[fn.Origin().String()]++
			return in(e, args, pos, fn)
		}
	}
	if in, ok := e.intr[name]; ok {
		e.stubs[name]++
		return in(e, args, pos, fn)
	}
	if mn, ok := modelOf[name]; ok {
		// environment-facing function with a Go MODEL in the harness library (evaluated symbolically in its place; the
		// native replay runs the real function against fakes that realise the same answers)
		if pk := e.prog.ImportedPackage(e.repoPkgPrefix); pk != nil {
			if m := pk.Func(mn); m != nil {
				e.stubs[name+" -> "+mn]++
				return e.CallFunction(m, args, nil)
			}
		}
	}
	if strings.HasPrefix(fn.Name(), "vp") && len(fn.Name()) > 2 && fn.Name()[2] >= 'A' && fn.Name()[2] <= 'Z' {
		nm := fn.Name()
		if i := strings.Index(nm, "["); i > 0 {
			nm = nm[:i] // instantiation of a generic vp function
		}
		if in, ok := e.intr["vp:"+nm]; ok {
			return in(e, args, pos, fn)
		}
	}
	if in := e.pkgIntrinsic(fn); in != nil {
		e.stubs[name]++
		return in(e, args, pos, fn)
	}
	return e.CallFunction(fn, args, bind)
}

func (e *Engine) invoke(recv *IfaceV, m *types.Func, args []Value, pos token.Pos) Value {
	tb := e.tb
	if m.Pkg() != nil {
		switch m.Pkg().Path() {
		case "log/slog", "log":
			// logging interfaces are no-ops whatever the receiver
			res := m.Type().(*types.Signature).Results()
			switch res.Len() {
			case 0:
				return nil
			case 1:
				return e.zero(res.At(0).Type())
			}
			return e.zero(res)
		}
	}
	nilG := tb.False
	for _, a := range recv.Alts {
		if a.T == nil {
			nilG = tb.Or(nilG, a.G)
		}
	}
	e.runtimePanic("method call on nil interface", pos, nilG)
	G0 := e.G
	var gs []*Term
	var vs []Value
	exit := tb.False
	for _, a := range recv.Alts {
		if a.T == nil {
			continue
		}
		g := tb.And(G0, a.G)
		if g.IsFalse() {
			continue
		}
		e.G = g
		var v Value
		if mn, ok := e.markerName(a.T); ok {
			in, ok := e.intr["marker:"+mn+"."+m.Name()]
			if !ok {
				panic(e.unsupported("method %s on intrinsic object %s", m.Name(), mn))
			}
			v = in(e, append([]Value{a.V}, args...), pos, nil)
		} else {
			ms := e.prog.MethodSets.MethodSet(a.T)
			sel := ms.Lookup(m.Pkg(), m.Name())
			if sel == nil {
				panic(e.unsupported("method %s not found on %v", m.Name(), a.T))
			}
			buildMu.Lock()
			fn := e.prog.MethodValue(sel)
			buildMu.Unlock()
			if fn == nil {
				panic(e.unsupported("no method value for %s on %v", m.Name(), a.T))
			}
			v = e.callStatic(fn, append([]Value{a.V}, args...), nil, pos)
		}
		if !e.G.IsFalse() {
			gs = append(gs, a.G)
			vs = append(vs, v)
			exit = tb.Or(exit, e.G)
		}
	}
	e.G = exit
	if len(vs) == 0 || vs[0] == nil {
		return nil
	}
	return e.mergeMany(gs, vs)
}

// ---------------------------------------------------------------------------------------------
// Builtins

func (e *Engine) builtin(name string, args []Value, c *ssa.CallCommon, pos token.Pos) Value {
	tb := e.tb
	switch name {
	case "len":
		switch x := args[0].(type) {
		case *SliceV:
			r := e.sliceLen(x)
			if os.Getenv("VERIF_DEBUG_UB") != "" && tb.UB(r) >= 5 {
				fmt.Fprintf(os.Stderr, "len bound %d at %s:", tb.UB(r), e.posStr(pos))
				for _, al := range x.Alts {
					if al.Arr != nil {
						fmt.Fprintf(os.Stderr, " [arr=%d(%s) cells=%d ML1=%d ubLen=%d off=%s]", al.Arr.ID, al.Arr.Site, len(al.Arr.E), al.ML1, tb.UB(al.Len), al.Off.Dump(1))
					}
				}
				fmt.Fprintln(os.Stderr)
			}
			return r
		case *StrV:
			return e.strLen(x)
		case *MapV:
			return e.mapLen(x)
		case *ChanV:
			return e.chanLen(x)
		case *Ptr:
			at := c.Args[0].Type().Underlying().(*types.Pointer).Elem().Underlying().(*types.Array)
			return tb.Int(at.Len())
		case *ArrayV:
			return tb.Int(int64(len(x.E)))
		}
	case "cap":
		switch x := args[0].(type) {
		case *SliceV:
			return e.sliceCap(x)
		case *ChanV:
			if len(x.Alts) == 1 && x.Alts[0].Obj != nil {
				return tb.Int(int64(x.Alts[0].Obj.Cap))
			}
		case *ArrayV:
			return tb.Int(int64(len(x.E)))
		}
	case "append":
		st := c.Args[0].Type().Underlying().(*types.Slice)
		return e.appendOp(args[0].(*SliceV), args[1], st, pos)
	case "copy":
		return e.copyOp(args[0].(*SliceV), args[1], pos)
	case "delete":
		e.mapDelete(args[0].(*MapV), args[1])
		return nil
	case "close":
		e.chanClose(args[0].(*ChanV), pos)
		return nil
	case "print", "println":
		return nil
	case "min", "max":
		r := args[0]
		for _, a := range args[1:] {
			x, y := r.(*Term), a.(*Term)
			var lt *Term
			if x.S.K == SFP {
				lt = tb.FPCmp(OpFLT, x, y)
			} else if isSigned(c.Args[0].Type()) {
				lt = tb.Cmp(OpSLT, x, y)
			} else {
				lt = tb.Cmp(OpULT, x, y)
			}
			if name == "min" {
				r = tb.Ite(lt, x, y)
			} else {
				r = tb.Ite(lt, y, x)
			}
		}
		return r
	case "clear":
		switch x := args[0].(type) {
		case *MapV:
			for _, ma := range x.Alts {
				if ma.Obj == nil {
					continue
				}
				g := tb.And(e.G, ma.G)
				for _, en := range ma.Obj.Ents {
					en.Present = tb.And(en.Present, tb.Not(g))
				}
			}
			return nil
		}
	case "recover":
		return e.zero(types.NewInterfaceType(nil, nil))
	case "ssa:wrapnilchk":
		p := args[0].(*Ptr)
		nilG := tb.False
		for _, a := range p.Alts {
			if a.Obj == nil {
				nilG = tb.Or(nilG, a.G)
			}
		}
		e.runtimePanic("nil pointer dereference (wrapper)", pos, nilG)
		return p
	}
	panic(e.unsupported("builtin %s on %T", name, args[0]))
}

// ---------------------------------------------------------------------------------------------
// Defer / Go

func (e *Engine) deferCall(fr *Frame, x *ssa.Defer) {
	call := e.captureCall(fr, &x.Call, x.Pos())
	fr.defers = append(fr.defers, &Deferred{G: e.G, Call: call})
}

// captureCall evaluates the function value and arguments now and returns a thunk that performs the call.
func (e *Engine) captureCall(fr *Frame, c *ssa.CallCommon, pos token.Pos) func() {
	args := make([]Value, len(c.Args))
	for i, a := range c.Args {
		args[i] = e.operand(fr, a)
	}
	if c.IsInvoke() {
		recv := e.operand(fr, c.Value).(*IfaceV)
		m := c.Method
		return func() { e.invoke(recv, m, args, pos) }
	}
	switch f := c.Value.(type) {
	case *ssa.Builtin:
		cc := *c
		return func() { e.builtin(f.Name(), args, &cc, pos) }
	case *ssa.Function:
		return func() { e.callStatic(f, args, nil, pos) }
	}
	fv := e.operand(fr, c.Value).(*FuncV)
	return func() { e.callFuncV(fv, args, pos) }
}

func (e *Engine) runDefers(fr *Frame) {
	tb := e.tb
	G0 := e.G
	exit := G0
	for i := len(fr.defers) - 1; i >= 0; i-- {
		d := fr.defers[i]
		g := tb.And(exit, d.G)
		if g.IsFalse() {
			continue
		}
		e.G = g
		d.Call()
		// paths on which the deferred call did not return normally are dead
		exit = tb.Or(tb.And(exit, tb.Not(d.G)), e.G)
	}
	e.G = exit
}

func (e *Engine) goStmt(fr *Frame, x *ssa.Go) {
	call := e.captureCall(fr, &x.Call, x.Pos())
	if e.threads != nil {
		e.threads.spawn(e, call, e.posStr(x.Pos()))
		return
	}
	desc := x.Call.Value.String()
	if x.Call.IsInvoke() {
		desc = x.Call.Method.Name()
	}
	e.pending = append(e.pending, &PendingGo{G: e.G, Pos: e.posStr(x.Pos()) + " go " + desc, Fn: call})
}

// firePending runs parked goroutine i to completion under its spawn guard.
func (e *Engine) firePending(i int) {
	p := e.pending[i]
	if p.Done {
		return
	}
	p.Done = true
	G0 := e.G
	// the goroutine runs in every world in which it was spawned (its own guard), not only in the worlds
	// of the code that happens to trigger the firing: it is an independent thread
	g := p.G
	if !g.IsFalse() {
		e.G = g
		p.Fn.(func())()
		// the spawner continues regardless of how the goroutine ended
	}
	e.G = G0
}

func (e *Engine) String() string { return fmt.Sprintf("engine(%s)", e.harness) }


// modelOf: repo functions that face the environment (address parsing of live connections) and are replaced by a model
// function of the harness library when that library defines one.
var modelOf = map[string]string{
	"(*github.com/libp2p/go-libp2p-pubsub.peerScore).getIPs": "vpModel_getIPs",
}
