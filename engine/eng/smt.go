package eng

import (
	"os"
	"bufio"
	"fmt"
	"io"
	"math"
	"os/exec"
	"strconv"
	"strings"
	"sync"
	"time"
)

// Solver is one long-lived SMT solver process fed over stdin.
type Solver struct {
	Kind      string // z3 | z3-new | cvc5
	cmd       *exec.Cmd
	in        io.WriteCloser
	out       *bufio.Reader
	defined   map[int]bool
	timeoutMs int
	Queries   int
	Time      time.Duration
	dead      bool
	AbstractFP bool // FP arithmetic printed as uninterpreted functions (sound for UNSAT answers only)
	Log       io.Writer
	buf       strings.Builder
}

func StartSolver(kind string, timeoutMs int) (*Solver, error) {
	var cmd *exec.Cmd
	switch kind {
	case "z3":
		cmd = exec.Command("z3", "-in", "-smt2")
	case "z3-new", "z3-new-uf":
		cmd = exec.Command("z3-new", "-in", "-smt2")
	case "cvc5":
		cmd = exec.Command("cvc5", "--incremental", "--fp-exp", "--lang", "smt2", fmt.Sprintf("--tlimit-per=%d", timeoutMs), "--produce-models")
	default:
		return nil, fmt.Errorf("unknown solver %s", kind)
	}
	in, err := cmd.StdinPipe()
	if err != nil {
		return nil, err
	}
	out, err := cmd.StdoutPipe()
	if err != nil {
		return nil, err
	}
	cmd.Stderr = cmd.Stdout
	if err := cmd.Start(); err != nil {
		return nil, err
	}
	solverProcsMu.Lock()
	solverProcs = append(solverProcs, cmd)
	solverProcsMu.Unlock()
	s := &Solver{Kind: kind, cmd: cmd, in: in, out: bufio.NewReaderSize(out, 1<<20), defined: map[int]bool{}, timeoutMs: timeoutMs}
	if d := os.Getenv("VERIF_SMT_LOG"); d != "" {
		solverSeq++
		f, err := os.Create(fmt.Sprintf("%s/%s-%d-%d.smt2", d, kind, os.Getpid(), solverSeq))
		if err == nil {
			s.Log = f
		}
	}
	if kind == "z3-new-uf" {
		s.AbstractFP = true
	}
	if kind == "cvc5" {
		s.send("(set-logic ALL)\n")
	} else {
		s.send("(set-option :produce-models true)\n")
		s.send(fmt.Sprintf("(set-option :timeout %d)\n", timeoutMs))
	}
	if s.AbstractFP {
		for _, w := range []int{32, 64} {
			f := F64.String()
			if w == 32 {
				f = F32.String()
			}
			for _, op := range []string{"fadd", "fsub", "fmul", "fdiv"} {
				s.send(fmt.Sprintf("(declare-fun uf_%s%d (%s %s) %s)\n", op, w, f, f, f))
			}
			for _, bw := range []int{8, 16, 32, 64} {
				s.send(fmt.Sprintf("(declare-fun uf_stof%d_%d ((_ BitVec %d)) %s)\n", w, bw, bw, f))
				s.send(fmt.Sprintf("(declare-fun uf_utof%d_%d ((_ BitVec %d)) %s)\n", w, bw, bw, f))
				s.send(fmt.Sprintf("(declare-fun uf_ftos%d_%d (%s) (_ BitVec %d))\n", w, bw, f, bw))
				s.send(fmt.Sprintf("(declare-fun uf_ftou%d_%d (%s) (_ BitVec %d))\n", w, bw, f, bw))
			}
		}
		s.send("(declare-fun uf_ftof64 ((_ FloatingPoint 8 24)) (_ FloatingPoint 11 53))\n(declare-fun uf_ftof32 ((_ FloatingPoint 11 53)) (_ FloatingPoint 8 24))\n")
	}
	return s, nil
}

func (s *Solver) send(str string) {
	if s.Log != nil {
		io.WriteString(s.Log, str)
	}
	s.buf.WriteString(str)
}

func (s *Solver) flush() error {
	_, err := io.WriteString(s.in, s.buf.String())
	s.buf.Reset()
	return err
}

func (s *Solver) Close() {
	if s == nil || s.dead {
		return
	}
	s.dead = true
	s.in.Close()
	done := make(chan struct{})
	go func() { s.cmd.Wait(); close(done) }()
	select {
	case <-done:
	case <-time.After(500 * time.Millisecond):
		s.cmd.Process.Kill()
		<-done
	}
}

func (s *Solver) kill() {
	s.dead = true
	s.cmd.Process.Kill()
	s.cmd.Wait()
}

// define emits declarations/definitions for every not-yet-defined node under t (iterative post-order).
func (s *Solver) define(t *Term) {
	if t.IsConst() || s.defined[t.ID] {
		return
	}
	type fr struct {
		t *Term
		i int
	}
	stack := []fr{{t, 0}}
	for len(stack) > 0 {
		f := &stack[len(stack)-1]
		if f.t.IsConst() || s.defined[f.t.ID] {
			stack = stack[:len(stack)-1]
			continue
		}
		if f.i < len(f.t.Args) {
			a := f.t.Args[f.i]
			f.i++
			if !a.IsConst() && !s.defined[a.ID] {
				stack = append(stack, fr{a, 0})
			}
			continue
		}
		n := f.t
		s.defined[n.ID] = true
		if n.Op == OpVar {
			s.send(fmt.Sprintf("(declare-const %s %s)\n", smtName(n), n.S))
		} else {
			if s.AbstractFP {
				s.send(fmt.Sprintf("(define-fun n%d () %s %s)\n", n.ID, n.S, exprSMTAbs(n, refName)))
			} else {
				s.send(fmt.Sprintf("(define-fun n%d () %s %s)\n", n.ID, n.S, exprSMT(n, refName)))
			}
		}
		stack = stack[:len(stack)-1]
	}
}

func refName(t *Term) string {
	if t.IsConst() {
		return constSMT(t)
	}
	return smtName(t)
}

var solverSeq int

// BVSolver is the solver used for bit-vector/Boolean queries (z3 5.1.0; z3 4.8.12 ignores its timeout on some ite-heavy queries).
var BVSolver = "z3-new"

type Model map[string]uint64

// AssertPermanent asserts terms at the base level (they stay across push/pop).
func (s *Solver) AssertPermanent(as []*Term) {
	if s.dead {
		return
	}
	for _, a := range as {
		s.define(a)
		s.send("(assert " + refName(a) + ")\n")
	}
}

// Check decides satisfiability of the conjunction of as. On sat the values of vars are returned.
// Result is "sat", "unsat" or "unknown" (timeouts, solver errors and crashes are all "unknown").
func (s *Solver) Check(as []*Term, vars []*Term) (string, Model) {
	if s.dead {
		return "unknown", nil
	}
	t0 := time.Now()
	defer func() { s.Time += time.Since(t0); s.Queries++ }()
	for _, a := range as {
		s.define(a)
	}
	for _, v := range vars {
		s.define(v)
	}
	s.send("(push 1)\n")
	for _, a := range as {
		s.send("(assert " + refName(a) + ")\n")
	}
	s.send("(check-sat)\n")
	if err := s.flush(); err != nil {
		s.kill()
		return "unknown", nil
	}
	res, ok := s.readLineTimeout(time.Duration(s.timeoutMs)*time.Millisecond*3/2 + 2*time.Second)
	if !ok {
		s.kill()
		return "unknown", nil
	}
	var model Model
	if res == "sat" && len(vars) > 0 {
		var sb strings.Builder
		sb.WriteString("(get-value (")
		for _, v := range vars {
			sb.WriteString(smtName(v))
			sb.WriteString(" ")
		}
		sb.WriteString("))\n")
		s.send(sb.String())
		if err := s.flush(); err != nil {
			s.kill()
			return "unknown", nil
		}
		txt, ok := s.readSexpTimeout(30 * time.Second)
		if !ok || strings.Contains(txt, "(error") {
			s.kill()
			return "unknown", nil
		}
		model = parseModel(txt)
	}
	s.send("(pop 1)\n")
	s.flush()
	switch res {
	case "sat", "unsat":
		return res, model
	}
	if strings.Contains(res, "error") {
		// any error line makes the answer inconclusive; restart the process to be safe
		s.kill()
	}
	return "unknown", nil
}

func (s *Solver) readLineTimeout(d time.Duration) (string, bool) {
	type r struct {
		s  string
		ok bool
	}
	ch := make(chan r, 1)
	go func() {
		for {
			line, err := s.out.ReadString('\n')
			if err != nil {
				ch <- r{"", false}
				return
			}
			line = strings.TrimSpace(line)
			if line == "" {
				continue
			}
			ch <- r{line, true}
			return
		}
	}()
	select {
	case x := <-ch:
		return x.s, x.ok
	case <-time.After(d):
		return "", false
	}
}

func (s *Solver) readSexpTimeout(d time.Duration) (string, bool) {
	type r struct {
		s  string
		ok bool
	}
	ch := make(chan r, 1)
	go func() {
		var sb strings.Builder
		depth := 0
		started := false
		inBar := false
		for {
			c, err := s.out.ReadByte()
			if err != nil {
				ch <- r{"", false}
				return
			}
			sb.WriteByte(c)
			if c == '|' {
				inBar = !inBar
			}
			if inBar {
				continue
			}
			if c == '(' {
				depth++
				started = true
			} else if c == ')' {
				depth--
				if started && depth == 0 {
					ch <- r{sb.String(), true}
					return
				}
			}
		}
	}()
	select {
	case x := <-ch:
		return x.s, x.ok
	case <-time.After(d):
		return "", false
	}
}

// ---- model parsing -------------------------------------------------------------------------

type sexp struct {
	atom string
	list []*sexp
}

func parseSexp(s string, pos *int) *sexp {
	for *pos < len(s) && (s[*pos] == ' ' || s[*pos] == '\n' || s[*pos] == '\t' || s[*pos] == '\r') {
		*pos++
	}
	if *pos >= len(s) {
		return nil
	}
	if s[*pos] == '(' {
		*pos++
		n := &sexp{list: []*sexp{}}
		for {
			for *pos < len(s) && (s[*pos] == ' ' || s[*pos] == '\n' || s[*pos] == '\t' || s[*pos] == '\r') {
				*pos++
			}
			if *pos >= len(s) {
				return n
			}
			if s[*pos] == ')' {
				*pos++
				return n
			}
			n.list = append(n.list, parseSexp(s, pos))
		}
	}
	start := *pos
	if s[*pos] == '|' {
		*pos++
		for *pos < len(s) && s[*pos] != '|' {
			*pos++
		}
		*pos++
		return &sexp{atom: s[start+1 : *pos-1]}
	}
	for *pos < len(s) && s[*pos] != ' ' && s[*pos] != ')' && s[*pos] != '(' && s[*pos] != '\n' {
		*pos++
	}
	return &sexp{atom: s[start:*pos]}
}

func bitsOf(x *sexp) (uint64, int, bool) {
	a := x.atom
	if strings.HasPrefix(a, "#x") {
		v, err := strconv.ParseUint(a[2:], 16, 64)
		return v, 4 * (len(a) - 2), err == nil
	}
	if strings.HasPrefix(a, "#b") {
		v, err := strconv.ParseUint(a[2:], 2, 64)
		return v, len(a) - 2, err == nil
	}
	return 0, 0, false
}

func sexpValue(x *sexp) (uint64, bool) {
	if x == nil {
		return 0, false
	}
	if x.list == nil {
		switch x.atom {
		case "true":
			return 1, true
		case "false":
			return 0, true
		}
		v, _, ok := bitsOf(x)
		return v, ok
	}
	l := x.list
	if len(l) == 4 && l[0].atom == "fp" {
		sg, _, _ := bitsOf(l[1])
		ex, ew, _ := bitsOf(l[2])
		mn, mw, _ := bitsOf(l[3])
		_ = ew
		return sg<<uint(ew+mw) | ex<<uint(mw) | mn, true
	}
	if len(l) == 4 && l[0].atom == "_" {
		eb, _ := strconv.Atoi(l[2].atom)
		is32 := eb == 8
		var f float64
		switch l[1].atom {
		case "NaN":
			f = math.NaN()
		case "+oo":
			f = math.Inf(1)
		case "-oo":
			f = math.Inf(-1)
		case "+zero":
			f = 0
		case "-zero":
			f = math.Copysign(0, -1)
		default:
			if strings.HasPrefix(l[1].atom, "bv") {
				v, err := strconv.ParseUint(l[1].atom[2:], 10, 64)
				return v, err == nil
			}
			return 0, false
		}
		if is32 {
			return uint64(math.Float32bits(float32(f))), true
		}
		return math.Float64bits(f), true
	}
	return 0, false
}

func parseModel(txt string) Model {
	pos := 0
	root := parseSexp(txt, &pos)
	m := Model{}
	if root == nil {
		return m
	}
	for _, pair := range root.list {
		if pair == nil || len(pair.list) != 2 {
			continue
		}
		if v, ok := sexpValue(pair.list[1]); ok {
			m[pair.list[0].atom] = v
		}
	}
	return m
}

// ---- pool ------------------------------------------------------------------------------------

// Pool hands out solver pairs (bv solver + fp solver) to parallel workers.
type Pool struct {
	mu        sync.Mutex
	timeoutMs int
	free      map[string][]*Solver
	all       []*Solver
	Queries   int
	TimeBy    map[string]time.Duration
	NoAbstraction bool
}

func NewPool(timeoutMs int) *Pool {
	return &Pool{timeoutMs: timeoutMs, free: map[string][]*Solver{}, TimeBy: map[string]time.Duration{}}
}

func (p *Pool) Get(kind string) *Solver {
	p.mu.Lock()
	defer p.mu.Unlock()
	if l := p.free[kind]; len(l) > 0 {
		s := l[len(l)-1]
		p.free[kind] = l[:len(l)-1]
		return s
	}
	to := p.timeoutMs
	if kind == "cvc5" {
		to *= 5 // floating-point arithmetic is slow to decide; probe: 18-60 s for whole-score() queries
	}
	s, err := StartSolver(kind, to)
	if err != nil {
		panic(err)
	}
	p.all = append(p.all, s)
	return s
}

func (p *Pool) Put(s *Solver) {
	p.mu.Lock()
	defer p.mu.Unlock()
	if s.dead {
		return
	}
	// restart solvers that accumulated too many definitions
	p.free[s.Kind] = append(p.free[s.Kind], s)
}

func (p *Pool) Close() {
	p.mu.Lock()
	defer p.mu.Unlock()
	for _, s := range p.all {
		p.Queries += s.Queries
		p.TimeBy[s.Kind] += s.Time
		s.Close()
	}
	p.all = nil
	p.free = map[string][]*Solver{}
}

// Solve picks the solver by theory content: FP operations go to cvc5, the rest to z3.
func (p *Pool) Solve(as []*Term, vars []*Term) (string, Model, string) {
	kind := BVSolver
	for _, a := range as {
		if a.HasFPOp() {
			kind = "cvc5"
			break
		}
	}
	if kind == "cvc5" && vars == nil && !p.NoAbstraction {
		// floating-point arithmetic: first try with the operations abstracted to uninterpreted functions
		// (congruence proves structurally equal computations equal); only an UNSAT answer is used
		s := p.Get("z3-new-uf")
		r, _ := s.Check(as, nil)
		p.Put(s)
		if r == "unsat" {
			return r, nil, "z3-new-uf"
		}
	}
	s := p.Get(kind)
	t0 := time.Now()
	r, m := s.Check(as, vars)
	if d := time.Since(t0); d > 2*time.Second && os.Getenv("VERIF_PROGRESS") != "" {
		fmt.Fprintf(os.Stderr, "  slow query: %s %s %.1fs\n", kind, r, d.Seconds())
	}
	p.Put(s)
	if r != "sat" && r != "unsat" && kind == BVSolver && os.Getenv("VERIF_NO_FALLBACK") == "" {
		// portfolio: a bit-vector query that z3 does not decide within its timeout is given to cvc5 (another bit-blaster,
		// another SAT back end) once, with the same timeout, before it is reported as unknown
		s2 := p.Get("cvc5")
		t1 := time.Now()
		r2, m2 := s2.Check(as, vars)
		if os.Getenv("VERIF_PROGRESS") != "" {
			fmt.Fprintf(os.Stderr, "  fallback query: cvc5 %s %.1fs (after %s %s)\n", r2, time.Since(t1).Seconds(), kind, r)
		}
		p.Put(s2)
		if r2 == "sat" || r2 == "unsat" {
			return r2, m2, "cvc5"
		}
	}
	return r, m, kind
}


// KillSolvers ends every solver process started so far (called when the checker itself is told to terminate, so that
// no solver is left spinning on its last query).
var (
	solverProcsMu sync.Mutex
	solverProcs   []*exec.Cmd
)

func KillSolvers() {
	solverProcsMu.Lock()
	defer solverProcsMu.Unlock()
	for _, c := range solverProcs {
		if c.Process != nil {
			c.Process.Kill()
		}
	}
}
