package eng

import (
	"sort"

	"golang.org/x/tools/go/ssa"
)

// Loop-nest forest of an ssa.Function. A region is the function body or one loop body; its items are
// blocks directly inside it and its inner loops (collapsed), ordered topologically (RPO of entry block).

type Loop struct {
	Header  *ssa.BasicBlock
	Blocks  map[*ssa.BasicBlock]bool
	Parent  *Loop
	Kids    []*Loop
	Items   []regionItem
	LiveOut []ssa.Value // values defined inside, used outside
	Depth   int
}

type regionItem struct {
	Block *ssa.BasicBlock
	Loop  *Loop
}

type FuncCFG struct {
	Fn      *ssa.Function
	Root    *Loop // pseudo-loop: whole body, Header = entry
	LoopOf  map[*ssa.BasicBlock]*Loop // innermost loop containing block (Root if none)
	rpo     map[*ssa.BasicBlock]int
	Irreducible bool
	pdom    [][]uint64 // pdom[i] = bitset of blocks that post-dominate block i (incl. itself)
}

// PostDominates reports whether every path from d to a function exit passes through b.
func (c *FuncCFG) PostDominates(b, d *ssa.BasicBlock) bool {
	if c.pdom == nil {
		c.computePdom()
	}
	return c.pdom[d.Index][b.Index/64]&(1<<uint(b.Index%64)) != 0
}

func (c *FuncCFG) computePdom() {
	blocks := c.Fn.Blocks
	n := len(blocks)
	words := (n + 63) / 64
	full := make([]uint64, words)
	for i := 0; i < n; i++ {
		full[i/64] |= 1 << uint(i%64)
	}
	c.pdom = make([][]uint64, n)
	isExit := make([]bool, n)
	for i, b := range blocks {
		c.pdom[i] = make([]uint64, words)
		if len(b.Succs) == 0 {
			isExit[i] = true
			c.pdom[i][i/64] = 1 << uint(i%64)
		} else {
			copy(c.pdom[i], full)
		}
	}
	changed := true
	tmp := make([]uint64, words)
	for changed {
		changed = false
		for i := n - 1; i >= 0; i-- {
			b := blocks[i]
			if isExit[i] {
				continue
			}
			copy(tmp, full)
			for _, s := range b.Succs {
				ps := c.pdom[s.Index]
				for w := range tmp {
					tmp[w] &= ps[w]
				}
			}
			tmp[i/64] |= 1 << uint(i%64)
			for w := range tmp {
				if tmp[w] != c.pdom[i][w] {
					changed = true
					c.pdom[i][w] = tmp[w]
				}
			}
		}
	}
}



func buildCFG(fn *ssa.Function) *FuncCFG {
	c := &FuncCFG{Fn: fn, LoopOf: map[*ssa.BasicBlock]*Loop{}, rpo: map[*ssa.BasicBlock]int{}}
	blocks := fn.Blocks
	// back edges u->h where h dominates u
	type edge struct{ u, h *ssa.BasicBlock }
	var backs []edge
	isBack := map[edge]bool{}
	for _, u := range blocks {
		for _, s := range u.Succs {
			if s.Dominates(u) {
				backs = append(backs, edge{u, s})
				isBack[edge{u, s}] = true
			}
		}
	}
	// RPO ignoring back edges
	visited := map[*ssa.BasicBlock]bool{}
	var post []*ssa.BasicBlock
	var dfs func(b *ssa.BasicBlock)
	dfs = func(b *ssa.BasicBlock) {
		visited[b] = true
		for _, s := range b.Succs {
			if isBack[edge{b, s}] || visited[s] {
				continue
			}
			dfs(s)
		}
		post = append(post, b)
	}
	if len(blocks) > 0 {
		dfs(blocks[0])
	}
	for i, b := range post {
		c.rpo[b] = len(post) - 1 - i
	}
	// reducibility check: every retreating edge in the DFS must be a dominator back edge.
	// (go/ssa output is reducible except with goto; we report instead of mis-evaluating)
	for _, u := range blocks {
		if !visited[u] {
			continue
		}
		for _, s := range u.Succs {
			if !isBack[edge{u, s}] && c.rpo[s] <= c.rpo[u] {
				c.Irreducible = true
			}
		}
	}
	// natural loops, merged per header
	loops := map[*ssa.BasicBlock]*Loop{}
	for _, be := range backs {
		l := loops[be.h]
		if l == nil {
			l = &Loop{Header: be.h, Blocks: map[*ssa.BasicBlock]bool{be.h: true}}
			loops[be.h] = l
		}
		stack := []*ssa.BasicBlock{be.u}
		for len(stack) > 0 {
			b := stack[len(stack)-1]
			stack = stack[:len(stack)-1]
			if l.Blocks[b] {
				continue
			}
			l.Blocks[b] = true
			for _, p := range b.Preds {
				stack = append(stack, p)
			}
		}
	}
	root := &Loop{Blocks: map[*ssa.BasicBlock]bool{}}
	if len(blocks) > 0 {
		root.Header = blocks[0]
	}
	for _, b := range blocks {
		if visited[b] {
			root.Blocks[b] = true
		}
	}
	c.Root = root
	// nesting: parent = smallest loop strictly containing header
	var all []*Loop
	for _, l := range loops {
		all = append(all, l)
	}
	sort.Slice(all, func(i, j int) bool {
		if len(all[i].Blocks) != len(all[j].Blocks) {
			return len(all[i].Blocks) < len(all[j].Blocks)
		}
		return all[i].Header.Index < all[j].Header.Index
	})
	for i, l := range all {
		l.Parent = root
		for j := i + 1; j < len(all); j++ {
			if all[j] != l && all[j].Blocks[l.Header] && len(all[j].Blocks) > len(l.Blocks) {
				l.Parent = all[j]
				break
			}
		}
		l.Parent.Kids = append(l.Parent.Kids, l)
	}
	// innermost loop of each block: smallest loop containing it
	for _, b := range blocks {
		if !visited[b] {
			continue
		}
		c.LoopOf[b] = root
		for _, l := range all { // ascending size
			if l.Blocks[b] {
				c.LoopOf[b] = l
				break
			}
		}
	}
	var setDepth func(l *Loop, d int)
	setDepth = func(l *Loop, d int) {
		l.Depth = d
		for _, k := range l.Kids {
			setDepth(k, d+1)
		}
	}
	setDepth(root, 0)
	// items
	build := func(l *Loop) {
		for b := range l.Blocks {
			if c.LoopOf[b] == l {
				l.Items = append(l.Items, regionItem{Block: b})
			}
		}
		for _, k := range l.Kids {
			l.Items = append(l.Items, regionItem{Loop: k})
		}
		key := func(it regionItem) int {
			if it.Block != nil {
				return c.rpo[it.Block]
			}
			return c.rpo[it.Loop.Header]
		}
		sort.Slice(l.Items, func(i, j int) bool { return key(l.Items[i]) < key(l.Items[j]) })
	}
	build(root)
	for _, l := range all {
		build(l)
	}
	// live-out values per loop
	for _, l := range all {
		seen := map[ssa.Value]bool{}
		for b := range l.Blocks {
			for _, ins := range b.Instrs {
				v, ok := ins.(ssa.Value)
				if !ok {
					continue
				}
				refs := v.Referrers()
				if refs == nil {
					continue
				}
				for _, r := range *refs {
					if rb := r.Block(); rb != nil && !l.Blocks[rb] && !seen[v] {
						seen[v] = true
						l.LiveOut = append(l.LiveOut, v)
					}
				}
			}
		}
	}
	return c
}

// loopsExited lists loops (innermost first) containing from but not to.
func (c *FuncCFG) loopsExited(from, to *ssa.BasicBlock) []*Loop {
	var out []*Loop
	for l := c.LoopOf[from]; l != nil && l != c.Root; l = l.Parent {
		if to == nil || !l.Blocks[to] {
			out = append(out, l)
		}
	}
	return out
}
