#!/bin/bash
# usage: tryseed.sh <seed-id> [vcheck args...]   — apply a seeded change in the scratch worktree /tmp/wt_dev and run its property's check there
s=$1; shift
d=/verif/seeded/$s
p=$(python3 -c "import json;print(json.load(open('$d/meta.json'))['property'])")
wt=${WT:-/tmp/wt_dev}
[ -d $wt ] || git -C /repo worktree add -q --detach $wt HEAD
git -C $wt checkout -q -- . && git -C $wt apply $d/patch.diff || { echo APPLY FAILED; exit 3; }
cd /verif && VERIF_REPO=$wt ./bin/vcheck run $p --no-evidence "$@" 2>&1 | grep -v "^  vpH.* ok " | cut -c1-400
echo "exit=${PIPESTATUS[0]}"
git -C $wt checkout -q -- .
