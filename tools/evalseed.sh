#!/bin/bash
# usage: evalseed.sh <seeddir> <PROP> <worktree> [extra vcheck args]
# applies the seeded change to a scratch worktree (never to /repo), runs the property's quick check against it, reverts
d=$1; p=$2; wt=$3; shift 3
cd $wt && git checkout -q -- . && git apply "$d/patch.diff" || { echo "APPLY FAILED $d"; exit 3; }
cd /verif && VERIF_REPO=$wt timeout 2400 ./bin/vcheck run $p --no-evidence "$@" > /tmp/evalseed_$(basename $d).log 2>&1
rc=$?
cd $wt && git checkout -q -- .
echo "$(basename $d) prop=$p exit=$rc"
grep "VIOLATION\|INCONCLUSIVE" /tmp/evalseed_$(basename $d).log | cut -c1-300 | head -3
