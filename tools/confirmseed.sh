#!/bin/bash
# usage: confirmseed.sh <seeddir> <worktree>
# Confirms a seeded change in a scratch worktree of /repo (never in /repo itself):
#   builds with the change, demonstration test FAILS with it, whole existing suite PASSES with it,
#   demonstration test PASSES without it. Writes <seeddir>/confirm.json.
d=$(readlink -f $1); wt=$2
export GOFLAGS=-mod=mod GOPROXY=off GOSUMDB=off GOTOOLCHAIN=local PATH=/opt/veriftools/go1.26.8/bin:$PATH
dd=$(python3 -c "import json;print(json.load(open('$d/meta.json')).get('demo_dir','.'))")
cd $wt || exit 3
git checkout -q -- . ; rm -f $dd/zz_seed_demo_test.go
head=$(git rev-parse --short HEAD)
if ! git apply "$d/patch.diff"; then echo "{\"applies\": false, \"head\": \"$head\"}" > $d/confirm.json; exit 3; fi
go build ./... >/dev/null 2>&1; b=$?
cp $d/demo_test.go $dd/zz_seed_demo_test.go
(cd $dd && timeout 600 go test -vet=off -count=1 -run '^TestSeedDemo$' . >/tmp/confirm_demo_with.log 2>&1); with=$?
rm -f $dd/zz_seed_demo_test.go
timeout 1500 go test -vet=off -count=1 -timeout 25m ./... >/tmp/confirm_suite.log 2>&1; suite=$?
git checkout -q -- .
cp $d/demo_test.go $dd/zz_seed_demo_test.go
(cd $dd && timeout 600 go test -vet=off -count=1 -run '^TestSeedDemo$' . >/tmp/confirm_demo_without.log 2>&1); without=$?
rm -f $dd/zz_seed_demo_test.go
git checkout -q -- .
ok=false; if [ $b -eq 0 ] && [ $with -ne 0 ] && [ $suite -eq 0 ] && [ $without -eq 0 ]; then ok=true; fi
echo "{\"confirmed\": $ok, \"head\": \"$head\", \"applies\": true, \"build_exit\": $b, \"demo_with_change_exit\": $with, \"suite_with_change_exit\": $suite, \"demo_without_change_exit\": $without}" > $d/confirm.json
echo "$(basename $d) confirmed=$ok build=$b demo_with=$with suite=$suite demo_without=$without"
