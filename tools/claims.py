# evaluated by mkmanifest.py  --  claim(id, level text, note (what is outside / stubs), design ref)
B = "Bounded symbolic model checking of the real code (go/ssa -> symgo -> SMT; solver verdict over every value inside the bounds, counterexamples replayed natively): "

claim("C01",
  B + "NETWORK COMPOSITION of N=3 real nodes (real PubSub + real FloodSubRouter / RandomSubRouter built by the real constructors) wired through their real outbound queues and handleIncomingRPC: which links are up (all 8 graphs on 3 nodes) and which node publishes are solver variables, the role assignment in {bystander, subscriber with two subscriptions, relay only}^3 and the order roles-before/after-connecting are concrete, one harness per combination (floodsub 38 quick + 14 thorough, randomsub 6): no subscription receives a message twice; a subscription receives it exactly when its node is reachable from the publisher through overlay members, hence on a connected overlay every subscription of every subscriber exactly once; bystanders and relays deliver nothing.",
  "floodsub and randomsub only: gossipsub mesh formation / gossip repair across nodes, more than 3 nodes, churn during propagation, lossy queues and mixed-protocol networks are NOT decided (their single-node obligations are C06/C07/C17). Transport is a lock-step delivery loop in the harness.",
  "DESIGN.md §4 C01")
claim("C02",
  B + "FirstSeenCache/LastSeenCache Add/Has/sweep as histories of K=4 (thorough 6) symbolic operations over 2 (3) IDs with symbolic TTL and clock against a first/last-sighting oracle; the same as ONE step from an arbitrary cache state (any history length for the expiry arithmetic, sweep exactly at the expiry instant included); the REAL background sweeper goroutine receiving one tick forgets exactly the entries expired before the tick; and the validation pipeline's seen gate (markSeen before validators, second copy dropped).",
  "Virtual clock; tickers fire only when the harness delivers a tick; two copies racing through pushMsg on different goroutines are not explored in thread mode.",
  "DESIGN.md §4 C02")
claim("C03",
  B + "the inbound path shouldPush -> checkSigningPolicy -> pushMsg -> validation.validate -> verifyMessageSignature -> messagePubKey under all four signature policies crossed with author/anonymous mode (6 configurations): field presence (signature, from, seqno, key), self-authorship, forwarder and the OUTCOME CLASSES of the uninterpreted crypto are solver variables; acceptance is asserted EQUAL to the statement's rule in both directions; the key that verifies must be the one bound to the author.",
  "Cryptography, multihash peer-ID parsing and protobuf marshalling are uninterpreted/trusted; engine-only harnesses (counterexamples confirmed by concrete re-execution in the engine, not natively); outbound signing and the exact signed bytes are outside.",
  "DESIGN.md §4 C03")
claim("C04",
  B + "the validation pipeline (validate, doValidateTopic, validateTopic, validateSingleTopic, validateMsg, makeValidator) with n=2 and n=3 validators: symbolic verdict per validator (incl. out-of-range values), inline/asynchronous placement, per-validator and global throttle, local vs remote origin, ID already seen, asynchronous results in every order; outcome class, RejectMessage reason, release exactly once, error to a local publisher and at most one invocation per validator compared with the precedence oracle; plus peerScore.RejectMessage/DuplicateMessage over all 11 rejection reasons.",
  "Validator timeouts are the application's; n<=3; asynchronous validator goroutines run at the first point where the collector could block (result order symbolic).",
  "DESIGN.md §4 C04")
claim("C05",
  B + "from an arbitrary interest state (0..2 subscriptions, 0..2 relay references) one real handler (add/remove subscription, add/remove relay): the announced interest equals subs+relays>0 with exactly one announcement per edge; a remote observer folding the announcements ends with the true state; an announcement that hits a full outbound queue is retried by the real announceRetry goroutine, which re-checks subscriptions AND relays, and a withdrawn interest is not re-announced.",
  "One topic; hello-vs-queued-announcement ordering on a new stream and single-direction stream resets are outside.",
  "DESIGN.md §4 C05")
claim("C06",
  B + "step-inductive: from an ARBITRARY gossipsub router state (P=3; up/protocol/topic membership/direct/mesh/fanout/score/IDONTWANT record all solver variables) the real publishMessage -> Publish -> rpcs -> sendRPC for a message with symbolic source, author and Local flag, with and without flood publishing: the set of queues that received a copy equals the statement's recipient rule (incl. fresh fanout = min(D, eligible), remembered with lastpub) and each copy is the accepted message; same for FloodSubRouter.",
  "Stated precondition: mesh/fanout members are known topic members; thresholds concrete, scores symbolic; partial messages off; randomsub's size rule only via C01.",
  "DESIGN.md §4 C06")
claim("C07",
  B + "step-inductive: from an ARBITRARY router state over P=3 peers and one topic ONE real handler runs and post-state + wire output are compared with the statement: handleGraft (admission rules, PRUNE on refusal, negative score), handlePrune, Join (fresh and fanout promotion), Leave, peer departure, a full heartbeat for the tuples (D,Dlo,Dhi,Dscore,Dout)=(2,1,3,1,0) and all-zero (thorough: (2,2,3,2,0) with opportunistic grafting, P=4, P=5 with Dout=1), and the heartbeat's coalescing GRAFT/PRUNE sender over two topics and three peers (exactly one GRAFT/PRUNE per change, also for a peer grafted and pruned in the same heartbeat).",
  "One topic except in graftprune; D>=4 / P>=6 (outbound-quota rotation with >=2 outbound peers) outside; shuffles summarised as any permutation; GossipFactor=0; thresholds concrete.",
  "DESIGN.md §4 C07")
claim("C08",
  B + "step-inductive over an arbitrary router state (P=3): a GRAFT during backoff is refused with a PRUNE, not admitted, penalised (doubly inside the graft-flood threshold), the backoff is extended and stated to v1.1+ peers; clock and expiry symbolic so every boundary now==expiry is inside; Join never grafts a backed-off peer (heartbeat side asserted in C07's heartbeat harnesses).",
  "Backoff offsets within +-2^38 ns of now; one topic.",
  "DESIGN.md §4 C08")
claim("C09",
  B + "thresholds AND scores as solver variables (thresholds assumed accepted by the real PeerScoreThresholds.validate; scores through the real peerScore): AcceptFrom, handleIncomingRPC under AcceptNone, handleIHave/handleIWant at the gossip threshold, emitGossip recipients, handlePrune/pxConnect at the accept-PX threshold, GRAFT from a negative-score peer; equality with each threshold is inside the queries.",
  "No peer gater; PX records without valid signed envelopes; P=2..3.",
  "DESIGN.md §4 C09")
claim("C10",
  B + "peerScore on an ARBITRARY peerStats state with symbolic Topic/PeerScoreParams assumed accepted by the REAL validate() (atomic and non-atomic): score() never panics, equals the GossipSub v1.1 formula (IEEE-754; topic and global halves), is never NaN, penalties never raise it; and ONE step of every event handler against the statement's bookkeeping: DeliverMessage, DuplicateMessage (delivery window edge, once per peer), RejectMessage for each of the 11 reasons, Graft/Prune (sticky penalty once), OnClosedOutboundStream (retention rule; sticky penalty only while in the mesh), refreshScores (decay, decay-to-zero, mesh time, activation, retention expiry; counters stay non-negative numbers for every accepted parameter set), AddPenalty, SetTopicScoreParams re-capping.",
  "Magnitudes <= 1e12 (overflow to Inf excluded); one scored topic, one IP shared by 0..4 peers, whitelist empty; signed zeros identified; FP queries first with operations abstracted to uninterpreted functions, then exact on cvc5.",
  "DESIGN.md §4 C10")
claim("C11",
  B + "RPC.split (range-over-func) and the generated pb Size() for four element mixes (<=2 messages with symbolic payload <=300 B, subscription, GRAFT, PRUNE, IWANT/IHAVE/IDONTWANT IDs, extensions) against every limit of a symbolic range: each element in exactly one fragment, no empty fragment, each fragment within the limit unless a single indivisible element; and the router's send path sendRPC (4 variants: pending GRAFT retry and pending gossip piggybacked before sizing, oversized message): nothing above the limit is queued, everything queued exactly once, an oversized message dropped and reported, nothing both queued and kept for retry.",
  "Small shapes (the element counts are the bound); payload bytes opaque; sendRPC: limit symbolic in 48..100 with concrete payload size per variant.",
  "DESIGN.md §4 C11")
claim("C12",
  B + "an arbitrary valid gossipsub node (P=2, scoring, direct peers, PX) receives ONE structurally arbitrary RPC (every optional field nil or set, hostile topics / IDs / backoffs / PX entries, known or unknown sender): handleIncomingRPC and everything it reaches neither panics nor blocks, other peers' queues stay open, the router invariant is kept; the same with allowlist / limit subscription filters and repeated topics with absent flags; the seqno validator on wrong-length encodings.",
  "Elements of repeated fields are non-nil as Unmarshal produces them; the generated Unmarshal on arbitrary bytes, the regexp filter and valid signed peer records of unexpected type are outside.",
  "DESIGN.md §4 C12")
claim("C13",
  B + "peer teardown: peer x may own an entry in every per-peer structure of the node (18 symbolic bits: queues, topic membership, router peer set, mesh, fanout, pending gossip/control, direction, IDONTWANT records, backoff, flood counters, extension state, score statistics and IP bookkeeping, connection-manager protection), its outbound and inbound streams die in a symbolic order with an optional late GRAFT / first RPC on the surviving inbound stream; after the retention periods x occurs in none of them.",
  "gossipsub only; one topic; gater, gossip-tracer promises and partial-message state not included.",
  "DESIGN.md §4 C13")
claim("C14",
  B + "blocking structure after shutdown: the instance context is cancelled, the REAL processLoop runs to its exit, then each of 15 public API entry points (incl. relay cancel and an in-flight hand-off) must return rather than block; Publish with a full sendMsg buffer.",
  "Calls in progress at the moment of cancellation beyond those cases, goroutine termination and time bounds are outside.",
  "DESIGN.md §4 C14")
claim("C15",
  B + "rpcQueue: K=5 (thorough 6) symbolic Push/UrgentPush/Pop/cancel/Close operations for every capacity 1..3 against a two-list reference model, blocking conditions from every prefilled state; plus THREAD harnesses exploring every interleaving at synchronisation operations (sync.Cond modelled as the runtime implements it, AfterFunc callbacks as threads): Pop||cancel (no lost wake-up), Pop||Push, blocking Pushes||Pop, two pushers, Pop||Close.",
  "<=3 threads; thread counterexamples are replayed deterministically in the engine, not natively; sound under data-race freedom.",
  "DESIGN.md §4 C15")
claim("C16",
  B + "through the REAL processLoop driven by a scripted environment: BlacklistPeer at an arbitrary router state (P=2) removes the peer everywhere and closes its queue, later messages from it or authored by it are dropped with the blacklist reason, reconnects get no queue, nothing is sent to it; direct blacklisting through the Blacklist implementation; a message already in the validation pipeline; an outbound stream completing after direct blacklisting is refused.",
  "MapBlacklist (TimeCachedBlacklist expiry is by design); P=2.",
  "DESIGN.md §4 C16")
claim("C17",
  B + "MessageCache as K=6 (thorough 7) symbolic operations vs a ghost age per message; handleIHave from arbitrary per-heartbeat counters (requests = min(unseen advertised, budget), counters exact, one promise), handleIWant over K=3 RPCs (retransmission limit, unwanted, expired), handleIDontWant caps and TTL ageing, Preprocess (size threshold, v1.2+, mesh, not the sender), the promise tracker as K=4 (6) operations vs a ghost table (penalty only if the message arrived from nobody in time) and applyIwantPenalties, and real heartbeats (advertised HistoryGossip, served HistoryLength heartbeats, counters reset each heartbeat).",
  "Small parameter values (MaxIHaveLength 3, MaxIHaveMessages 2, GossipRetransmission 2, MaxIDontWant* 2/3, TTL 2) are the bound; 2 messages, 1-2 peers.",
  "DESIGN.md §4 C17")
claim("C18",
  B + "TopicEventHandler coalescing log: one step from an ARBITRARY log state over two peers satisfying truth = fold(consumer view, pending entry) with the wake-up signal armed iff non-empty (both insertion orders): invariant preserved, NextPeerEvent blocks exactly when nothing is pending (cancelled consumer included), returned events alternate per peer; and histories of K=4 (thorough 6) notifications/pulls: after draining, the returned events reproduce the member set.",
  "Events fed to the log are admissible per the join/leave sources; concurrent consumers not covered.",
  "DESIGN.md §4 C18")
claim("C19",
  B + "with a recording tracer attached: Join/Leave of every router record exactly one JOIN resp. LEAVE; from an arbitrary gossipsub state ONE real handler (handleGraft, handlePrune, Join, Leave, heartbeat, peer departure) — replaying the recorded stream-opened/closed, GRAFT, PRUNE, JOIN, LEAVE events as set operations on the pre-state rebuilds the router's peer set and mesh; exactly one DELIVER_MESSAGE per accepted message and one PUBLISH_MESSAGE per local attempt (3 routers); every RPC accepted resp. refused by an outbound queue has exactly one SEND_RPC resp. DROP_RPC event (announce, gossipsub, floodsub, randomsub paths; queue room symbolic).",
  "In-memory tracer; JSON/protobuf/remote tracer writers (file and network I/O) and the contents of per-RPC metadata are outside.",
  "DESIGN.md §4 C19")
claim("C20",
  B + "BasicSeqnoValidator.validate: one step from an arbitrary store state over all 2^64 x 2^64 (seqno, nonce) pairs and store failures, seqno lengths 0..9, sequential histories of K=4 (thorough 6) arbitrary seqnos (accepted seqnos strictly increasing, store = maximum), and a THREAD harness: two validations of one author concurrently, every interleaving of their RWMutex operations (same seqno never accepted twice).",
  "PeerMetadataStore is a harness fake whose Put succeeds or fails symbolically; 2 threads; data-race freedom assumed.",
  "DESIGN.md §4 C20")
