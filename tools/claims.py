# evaluated by mkmanifest.py
claim("C20",
  "Bounded symbolic model checking of the real BasicSeqnoValidator.validate: one step from an arbitrary store state over all 2^64 x 2^64 (seqno, nonce) pairs and store-read failures (accept iff seqno > nonce, store = accepted seqno, nonce never decreases, never Reject for well-formed seqnos), seqno lengths 0..9 (no panic), and sequential histories of K=4 (thorough 6) arbitrary seqnos (accepted seqnos strictly increasing, store = maximum). A solver verdict covers every value inside those bounds; nothing is claimed outside them.",
  "Concurrent validation (several workers racing on one author) is not yet decided by a thread harness; the PeerMetadataStore is a harness fake whose Put succeeds or fails symbolically; sync.RWMutex is sequential in these harnesses.",
  "DESIGN.md §4 C20")
claim("C19",
  "Bounded symbolic model checking over the real constructors and routers (NewGossipSub/NewFloodSub/NewRandomSub with a fake host): Join/Leave of every router record exactly one JOIN resp. LEAVE event for the topic.",
  "Thin check so far (JOIN/LEAVE alternation under the three routers); GRAFT/PRUNE/stream/DELIVER/SEND/DROP accounting harnesses are being added. File/remote tracers (I/O) are outside.",
  "DESIGN.md §4 C19")
