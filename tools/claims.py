# evaluated by mkmanifest.py
claim("C20",
  "Bounded symbolic model checking of the real BasicSeqnoValidator.validate: one step from an arbitrary store state over all 2^64 x 2^64 (seqno, nonce) pairs and store-read failures (accept iff seqno > nonce, store = accepted seqno, nonce never decreases, never Reject for well-formed seqnos), seqno lengths 0..9 (no panic), and sequential histories of K=4 (thorough 6) arbitrary seqnos (accepted seqnos strictly increasing, store = maximum). A solver verdict covers every value inside those bounds; nothing is claimed outside them.",
  "Concurrent validation (several workers racing on one author) is not yet decided by a thread harness; the PeerMetadataStore is a harness fake whose Put succeeds or fails symbolically; sync.RWMutex is sequential in these harnesses.",
  "DESIGN.md §4 C20")
claim("C19",
  "Bounded symbolic model checking over the real constructors and routers (NewGossipSub/NewFloodSub/NewRandomSub with a fake host): Join/Leave of every router record exactly one JOIN resp. LEAVE event for the topic.",
  "Thin check so far (JOIN/LEAVE alternation under the three routers); GRAFT/PRUNE/stream/DELIVER/SEND/DROP accounting harnesses are being added. File/remote tracers (I/O) are outside.",
  "DESIGN.md §4 C19")
claim("C02",
  "Bounded symbolic model checking of the real FirstSeenCache/LastSeenCache (Add, Has, sweep) in package timecache: histories of K=4 (thorough 6) symbolic operations over 2 (3) IDs with symbolic TTL and symbolic non-decreasing clock against a first/last-sighting oracle (Add true iff not remembered, retention for at least the TTL, forgotten by the first sweep after the TTL), plus the same operations as one step from an arbitrary cache state (covers histories of any length for the expiry arithmetic, including sweep exactly at the expiry instant).",
  "The background sweeper goroutine is stopped and sweeps happen at solver-chosen instants; the validation-pipeline gate (markSeen before validators/delivery) and the concurrent race of copies are not yet decided here (see C04 harnesses when registered); virtual clock.",
  "DESIGN.md §4 C02")
claim("C15",
  "Bounded symbolic model checking of the real rpcQueue: K=5 (thorough 6) symbolic Push/UrgentPush/Pop/cancel/Close operations for every capacity 1..3 against a two-list reference model (capacity never exceeded, ErrQueueFull iff full, urgent before normal, FIFO per class, nothing lost or duplicated, closed/cancelled errors, push on closed reported), and the blocking conditions of Pop and blocking Push from every prefilled state.",
  "Sequential semantics only so far: the concurrent interleavings (cancel landing between Pop's context check and its wait) need the thread mode of the engine, which is not built yet; sync.Cond.Wait is modelled as 'blocks' in these harnesses.",
  "DESIGN.md §4 C15")
claim("C17",
  "Bounded symbolic model checking of the real MessageCache: K=6 (thorough 7, all window shapes gossip<=history<=3) symbolic Put/Get/GetForPeer/GetGossipIDs/Shift operations over 2 message IDs, 2 topics, 2 peers against a ghost age per message: retrievable exactly HistoryLength heartbeats, advertised exactly once during the first HistoryGossip heartbeats and only for its topic, per-peer transmission counts exact and forgotten with the message.",
  "Message-cache part only so far; IHAVE/IWANT/IDONTWANT handler limits and promise tracking harnesses are being added. Precondition: an ID is Put at most once per window (seen cache, C02).",
  "DESIGN.md §4 C17")
claim("C07",
  "Bounded symbolic model checking, step-inductive: from an ARBITRARY gossipsub router state over P=3..4 peers and one topic (every membership bit, protocol, direction, direct flag, backoff expiry and score a solver variable; built on a node made by the real constructors) ONE real handler is executed and its post-state and wire output are compared with the statement: handleGraft admission rules and PRUNE on refusal, handlePrune, Join (fresh and fanout promotion; GRAFT to exactly the added peers), Leave (PRUNE + unsubscribe backoff), departure of a peer, and a full heartbeat (no negative member remains, under-subscription refill to D, over-subscription cut to D keeping the Dscore best and Dout outbound members, never grafting ineligible peers, GRAFT/PRUNE on the wire for every change) for the parameter tuples (D,Dlo,Dhi,Dscore,Dout)=(2,1,3,1,0) and the all-zero bootstrapper tuple (thorough: + (2,2,3,2,0) with opportunistic grafting, P=4 tuples, P=5 with Dout=1).",
  "One topic; thresholds concrete in these harnesses (scores symbolic through the real peerScore with an application-specific score of weight 1); shufflePeers/shuffleStrings are summarised as 'any permutation'; GossipFactor=0; partial-message extension off; heartbeat at P=3 in the quick tier.",
  "DESIGN.md §4 C07")
claim("C08",
  "Bounded symbolic model checking, step-inductive over an arbitrary router state (P=3): a GRAFT received during backoff is refused with a PRUNE, not admitted, penalised (doubly inside the graft-flood threshold), extends the backoff and the PRUNE to a v1.1+ peer states the backoff; clock and expiry symbolic so every boundary (now == expiry) is inside.",
  "Refusal/penalty clause so far; the no-early-GRAFT clause over Join/heartbeat/retry sites is covered indirectly by C07's 'never grafts a backed-off peer' assertions and is being added here explicitly.",
  "DESIGN.md §4 C08")
claim("C10",
  "Bounded symbolic model checking of the real peerScore.score / ipColocationFactor on an ARBITRARY peerStats state (one scored topic, one IP shared by 0..4 peers) with symbolic TopicScoreParams/PeerScoreParams assumed accepted by the REAL validate() functions (atomic and non-atomic mode): no panic for any accepted parameter set; the result equals the GossipSub v1.1 formula transcribed from the spec (topic half and global half compared separately, IEEE-754 semantics, first with FP operations abstracted to uninterpreted functions, exact on cvc5 otherwise); never NaN for magnitudes <= 1e12; penalty components never raise and P2 never lowers the score.",
  "Event handlers (graft/prune/deliver/reject/decay/retention) are not yet compared with reference transitions; magnitudes bounded by 1e12; signed zeros identified; counters assumed non-negative numbers; whitelist empty; one topic.",
  "DESIGN.md §4 C10")
claim("C11",
  "Bounded symbolic model checking of the real RPC.split (range-over-func) and the generated pb Size(): RPCs of two shapes (2 published messages with symbolic payload lengths <= 300 + 1 subscription; 1 subscription + 1 GRAFT + 2 IWANT IDs + 1 IDONTWANT ID) against every limit in a symbolic range: every element appears in exactly one fragment, no empty fragment, every fragment fits the limit unless it carries a single indivisible element.",
  "Small shapes (element counts above are the bound); payload bytes are opaque (only lengths matter to Size/split); sendRPC/doDropRPC re-queuing is not yet covered; PRUNE/IHAVE/extension shapes are in the thorough tier only when they run within budget.",
  "DESIGN.md §4 C11")
