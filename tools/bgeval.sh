#!/bin/bash
# run from a vp-run snapshot: builds vcheck there and evaluates the seeds with the snapshot's harnesses
here=$(cd $(dirname $0)/.. && pwd)
export GOFLAGS=-mod=mod GOPROXY=off GOSUMDB=off GOTOOLCHAIN=local PATH=/opt/veriftools/go1.26.8/bin:$PATH
mkdir -p $here/bin $here/evallogs
(cd $here/engine && go build -o $here/bin/vcheck ./cmd/vcheck) || exit 3
VERIF_DIR=$here EVAL_LOGDIR=$here/evallogs python3 $here/tools/evalall.py "$@"
cat $here/seeded/RESULTS.md
