#!/bin/bash
# usage: ingest.sh <round> <PROP> [worktree]  — copy a sub-agent's deliverables /tmp/<round>out/<PROP>/{1,2} to seeded/<round>_<PROP>_<n> and confirm them
r=$1; p=$2; wt=${3:-/tmp/wt_confirm}
[ -d $wt ] || git -C /repo worktree add -q --detach $wt HEAD
for n in 1 2 3; do
  src=/tmp/${r}out/$p/$n
  [ -f $src/patch.diff ] || continue
  dst=/verif/seeded/${r}_${p}_$n
  mkdir -p $dst
  cp $src/patch.diff $src/demo_test.go $src/meta.json $dst/
  /verif/tools/confirmseed.sh $dst $wt
done
