#!/usr/bin/env python3
"""Regenerates /verif/MANIFEST.json from the table below (kept valid against the schema)."""
import json, subprocess, sys

GOENV = "env GOFLAGS=-mod=mod GOPROXY=off GOSUMDB=off GOTOOLCHAIN=local PATH=/opt/veriftools/go1.26.8/bin:$PATH"
SETUP = f"cd /verif/engine && {GOENV} go build -o /verif/bin/vcheck ./cmd/vcheck && /verif/bin/vcheck selftest"
TECH = "bounded symbolic execution of the real code: go/ssa -> guarded symbolic evaluation (symgo) -> SMT (z3 5.1.0 for BV/Bool, cvc5 1.0.3 for floating point; thread harnesses: explicit-path exploration of schedules with symbolic data); counterexamples replayed natively via go test -overlay"

# property -> (text, note, design_ref)   -- only properties whose checks run clean on the unchanged tree are listed
CLAIMS = {}
NA = {}

def claim(pid, text, note, ref):
    CLAIMS[pid] = (text, note, ref)

exec(open('/verif/tools/claims.py').read())

props = [json.loads(l)['id'] for l in open('/verif/properties.jsonl')]
checks = []
for pid in props:
    if pid not in CLAIMS:
        continue
    text, note, ref = CLAIMS[pid]
    checks.append({
        "property_id": pid,
        "quick_cmd": f"/verif/bin/vcheck run {pid} --tier quick",
        "thorough_cmd": f"/verif/bin/vcheck run {pid} --tier thorough",
        "evidence_file": f"/verif/evidence/{pid}.json",
        "replay_cmd_template": "/verif/bin/vcheck replay {path}",
        "engine": "symgo",
        "level_claimed": {"category": "model_checking", "text": text, "design_ref": ref},
        "level_note": note,
        "technique": TECH,
    })
na = [{"property_id": p, "reason": NA.get(p, "check not built yet in this session; will be claimed once its harness runs clean on the unchanged tree")} for p in props if p not in CLAIMS]
hooks_commits = [l.strip() for l in open('/verif/tools/hook_commits.txt')] if __import__('os').path.exists('/verif/tools/hook_commits.txt') else []
m = {
 "version": 1,
 "setup_cmd": SETUP,
 "hooks": {"guard": "verif", "enable": "harnesses are overlaid into /repo's packages with build tag verif (go/packages Overlay for the engine, go test -overlay -tags verif for native replay); no verif-tagged file is committed in /repo",
           "baseline_off_cmd": f"cd /repo && {GOENV} go test -vet=off -count=1 -timeout 25m ./...",
           "source_commits": hooks_commits, "add_only": True},
 "engines": [{"name": "symgo", "path": "/verif/engine", "serves_properties": sorted(CLAIMS), "kind_free_text": "SSA-to-SMT guarded symbolic evaluator for Go written for this task (go/ssa x/tools v0.50.0, go1.26.8); z3/cvc5 back ends; native replay driver"}],
 "checks": checks,
 "notes": "Exit codes of every check: 0 all obligations discharged within bounds (KNOWN-FINDING lines for listed findings), 1 + VIOLATION line for a natively reproduced counterexample, 2 + INCONCLUSIVE line otherwise (never on the unchanged tree at registered bounds). Fix commits in /repo and known findings are listed in /verif/known_findings.json. See DESIGN.md.",
 "not_applicable": na,
}
json.dump(m, open('/verif/MANIFEST.json', 'w'), indent=1)
print("checks:", [c['property_id'] for c in checks], "na:", len(na))
