#!/bin/bash
# run from a vp-run snapshot: builds vcheck there and runs every property's thorough tier once (development aid)
here=$(cd $(dirname $0)/.. && pwd)
export GOFLAGS=-mod=mod GOPROXY=off GOSUMDB=off GOTOOLCHAIN=local PATH=/opt/veriftools/go1.26.8/bin:$PATH
mkdir -p $here/bin
(cd $here/engine && go build -o $here/bin/vcheck ./cmd/vcheck) || exit 3
for p in "$@"; do
  s=$(date +%s)
  VERIF_DIR=$here $here/bin/vcheck run $p --tier thorough --no-evidence > $here/thorough_$p.log 2>&1
  echo "$p exit=$? $(( $(date +%s)-s ))s"
  grep "INCONCLUSIVE\|VIOLATION" $here/thorough_$p.log | cut -c1-300 | head -5
done
