//go:build verif

package pubsub

import (
	pb "github.com/libp2p/go-libp2p-pubsub/pb"
	"github.com/libp2p/go-libp2p/core/peer"
)

// ---- C06: every forwarded copy goes to exactly the peers the router rules require ---------------------

func vpGsRecipients(flood bool) {
	params := vpSmallParams()
	w := vpNewWorld(vpWorldCfg{P: 3, params: params, scoring: true, direct: true, flood: flood})
	gs, ps := w.n.gs, w.n.ps
	pubThr := gs.publishThreshold
	// stated precondition (DESIGN.md, F16): eager-push overlay members are known topic members
	for i := range w.peers {
		vpAssume(!(w.mesh[i] || w.fanout[i]) || w.inTopic[i])
	}
	// message: source and author over peers, self and a stranger; Local flag
	srcs := []peer.ID{"self", "p0", "p1", "p2"}
	auths := []peer.ID{"self", "p0", "p1", "p2", "stranger"}
	src := srcs[vpInt("source", 0, 3)]
	auth := auths[vpInt("author", 0, 4)]
	local := vpBool("local_only")
	msg := vpMkMsg(string(auth), "1", vpT0)
	msg.ReceivedFrom = src
	msg.Local = local
	if local {
		vpAssume(src == "self")
	}
	unw := make([]bool, w.P)
	for i, p := range w.peers {
		unw[i] = vpBool("announced_idontwant")
		if unw[i] && w.up[i] {
			gs.unwanted[p] = map[checksum]int{computeChecksum(ps.idGen.ID(msg)): 3}
		} else {
			unw[i] = false
		}
	}
	hadFanout := len(gs.fanout[vpT0]) > 0
	ps.publishMessage(msg)

	eligible, sentFresh := 0, 0
	for i, p := range w.peers {
		wire := vpReadWire(w.q[i])
		sent := len(wire.msgs) > 0
		vpAssert(len(wire.msgs) <= 1, "a peer is sent at most one copy")
		if sent {
			vpAssert(wire.msgs[0] == msg.Message, "the copy sent is the very message that was accepted (field for field, signature intact)")
			vpAssert(p != src && p != auth, "a copy is never sent to the peer it came from or to its author")
			vpAssert(w.inTopic[i], "a copy is never sent to a peer not known to be in the topic")
			vpAssert(!local, "a local-only publication is sent to nobody")
		}
		can := w.up[i] && w.inTopic[i] && p != src && p != auth && !local
		floodsubPeer := w.proto[i] == 0
		if flood && src == "self" {
			vpAssert(sent == (can && (w.direct[i] || w.score[i] >= pubThr)), "flood publishing sends the node's own message to every topic peer that is direct or at/above the publish threshold")
			continue
		}
		must := can && (w.direct[i] || (floodsubPeer && w.score[i] >= pubThr) || (w.joined && w.mesh[i] && !unw[i]) || (!w.joined && hadFanout && w.fanout[i] && !unw[i]))
		if must {
			vpAssert(sent, "direct peers, floodsub peers above the publish threshold, mesh members (or the kept fanout set) are always sent the message, except members that announced IDONTWANT")
		}
		if w.joined || hadFanout {
			vpAssert(sent == must, "nobody else is sent the message")
		} else {
			// fresh fanout selection: up to D eligible peers, chosen at random
			el := w.inTopic[i] && w.capable(i) && !w.direct[i] && w.score[i] >= pubThr
			if el {
				eligible++
			}
			_, inF := gs.fanout[vpT0][p]
			vpAssert(!inF || el, "a fresh fanout set contains only eligible peers (in topic, mesh-capable, not direct, at/above the publish threshold)")
			if inF {
				sentFresh++
			}
			if !must {
				vpAssert(sent == (inF && can && !unw[i]), "outside the deterministic classes only the chosen fanout members are sent the message")
			}
		}
	}
	if !w.joined && !hadFanout && !(flood && src == "self") && !local {
		_, hasTopicPeers := ps.topics[vpT0]
		if hasTopicPeers {
			want := eligible
			if want > params.D {
				want = params.D
			}
			vpAssert(sentFresh == want, "a fresh fanout set has min(D, eligible) members and is remembered")
			_, lp := gs.lastpub[vpT0]
			vpAssert(lp, "publishing to a non-joined topic refreshes its fanout timestamp")
		}
	}
	if !w.joined && !local && !(flood && src == "self") {
		if _, hasTopicPeers := ps.topics[vpT0]; hasTopicPeers {
			lp, ok := gs.lastpub[vpT0]
			vpAssert(ok && lp == w.now.UnixNano(), "every publication to a non-joined topic refreshes the fanout's last-published time (members are kept while the topic keeps being published to)")
		}
	}
	vpCover(!w.joined && !hadFanout && eligible == 3 && !local, "fresh fanout with more eligible peers than D")
	vpCover(w.joined && w.mesh[0] && unw[0] && src == "p1", "mesh member that announced IDONTWANT")
}

func vpH_C06_gs_rpcs()  { vpOpt("unwind", 10); vpGsRecipients(false) }
func vpH_C06_gs_flood() { vpOpt("unwind", 10); vpGsRecipients(true) }

// floodsub: every topic peer with a queue except source and author.
func vpH_C06_floodsub() {
	nd := vpNewNode("self", vpNodeCfg{router: "floodsub"})
	peers := []peer.ID{"p0", "p1", "p2"}
	tm := map[peer.ID]peerTopicState{}
	nd.ps.topics[vpT0] = tm
	var qs []*rpcQueue
	var up, inT []bool
	for _, p := range peers {
		u, t := vpBool("up"), vpBool("in_topic")
		var q *rpcQueue
		if u {
			q = nd.vpAddPeer(p, FloodSubID, true)
		}
		if t {
			tm[p] = peerTopicState{}
		}
		qs, up, inT = append(qs, q), append(up, u), append(inT, t)
	}
	src := []peer.ID{"self", "p0", "p1"}[vpInt("source", 0, 2)]
	auth := []peer.ID{"self", "p0", "p2", "stranger"}[vpInt("author", 0, 3)]
	local := vpBool("local_only")
	msg := vpMkMsg(string(auth), "1", vpT0)
	msg.ReceivedFrom, msg.Local = src, local
	nd.ps.publishMessage(msg)
	for i, p := range peers {
		wire := vpReadWire(qs[i])
		sent := len(wire.msgs) > 0
		want := up[i] && inT[i] && p != src && p != auth && !local
		vpAssert(sent == want && len(wire.msgs) <= 1, "floodsub sends one copy to every topic peer except the source and the author, none for a local-only publication")
		if sent {
			vpAssert(wire.msgs[0] == msg.Message, "the copy is the accepted message itself")
		}
	}
	vpCover(!local && up[2] && inT[2] && auth != "p2", "p2 served")
}

var _ = pb.TraceEvent_JOIN

// randomsub: within the degree bound where its random selection is exhaustive (at most RandomSubD randomsub peers; here
// P=3, each speaking floodsub or randomsub - a mixed network) the router sends one copy to every topic peer it has a
// stream to except the source and the author, none for a local-only publication.
func vpH_C06_randomsub() {
	nd := vpNewNode("self", vpNodeCfg{router: "randomsub"})
	peers := []peer.ID{"p0", "p1", "p2"}
	tm := map[peer.ID]peerTopicState{}
	nd.ps.topics[vpT0] = tm
	var qs []*rpcQueue
	var up, inT []bool
	for _, p := range peers {
		u, t, fs := vpBool("up"), vpBool("in_topic"), vpBool("speaks_floodsub")
		var q *rpcQueue
		if u {
			proto := RandomSubID
			if fs {
				proto = FloodSubID
			}
			q = nd.vpAddPeer(p, proto, true)
		}
		if t {
			tm[p] = peerTopicState{}
		}
		qs, up, inT = append(qs, q), append(up, u), append(inT, t)
	}
	src := []peer.ID{"self", "p0", "p1"}[vpInt("source", 0, 2)]
	auth := []peer.ID{"self", "p0", "p2", "stranger"}[vpInt("author", 0, 3)]
	local := vpBool("local_only")
	msg := vpMkMsg(string(auth), "1", vpT0)
	msg.ReceivedFrom, msg.Local = src, local
	nd.ps.publishMessage(msg)
	for i, p := range peers {
		wire := vpReadWire(qs[i])
		sent := len(wire.msgs) > 0
		want := up[i] && inT[i] && p != src && p != auth && !local
		vpAssert(sent == want && len(wire.msgs) <= 1, "randomsub (exhaustive range) sends one copy to every topic peer except the source and the author, none for a local-only publication")
		if sent {
			vpAssert(wire.msgs[0] == msg.Message, "the copy is the accepted message itself")
		}
	}
	vpCover(!local && up[2] && inT[2] && auth != "p2", "p2 served")
}
