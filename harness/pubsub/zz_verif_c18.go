//go:build verif

package pubsub

import (
	"context"

	"github.com/libp2p/go-libp2p/core/peer"
)

// ---- C18: the peer-event stream of a topic reproduces the topic's peer set ---------------------------

func vpNewEvtHandler() *TopicEventHandler {
	return &TopicEventHandler{evtLog: make(map[peer.ID]EventType), evtLogCh: make(chan struct{}, 1)}
}

// log_step: one step (a notification admissible per the join/leave sources, or a NextPeerEvent) from an ARBITRARY
// coalescing-log state satisfying the invariant  truth(p) = fold(consumer(p), pending entry of p).
func vpH_C18_log_step() {
	h := vpNewEvtHandler()
	peers := []peer.ID{"p0", "p1"}
	truth := map[peer.ID]bool{}
	cons := map[peer.ID]bool{}
	first := vpInt("first_inserted", 0, 1) // both insertion (hence iteration) orders of the log
	for k := 0; k < 2; k++ {
		i := (k + first) % 2
		p := peers[i]
		pending, isJoin, c := vpBool("pending"), vpBool("pending_is_join"), vpBool("consumer_has")
		if pending {
			// invariant: a pending Join means the consumer does not hold p yet, a pending Leave that it does
			vpAssume(c == !isJoin)
			if isJoin {
				h.evtLog[p] = PeerJoin
			} else {
				h.evtLog[p] = PeerLeave
			}
			truth[p] = isJoin
		} else {
			truth[p] = c
		}
		cons[p] = c
	}
	signal := vpBool("signal_pending")
	if len(h.evtLog) > 0 {
		vpAssume(signal) // invariant: a non-empty log has its wake-up signal pending
	}
	if signal {
		h.evtLogCh <- struct{}{}
	}
	p := peers[vpInt("peer", 0, 1)]
	if vpBool("step_is_notification") {
		// admissible event (C18_source: join only when absent, leave only when present)
		if truth[p] {
			h.sendNotification(PeerEvent{Type: PeerLeave, Peer: p})
		} else {
			h.sendNotification(PeerEvent{Type: PeerJoin, Peer: p})
		}
		truth[p] = !truth[p]
	} else {
		ctx, cancel := context.WithCancel(context.Background())
		if vpBool("consumer_context_already_cancelled") {
			cancel()
		}
		ctxDone := ctx.Err() != nil
		empty := len(h.evtLog) == 0
		var evt PeerEvent
		var err error
		blocked := vpBlocks(func() { evt, err = h.NextPeerEvent(ctx) })
		vpAssert(blocked == (empty && !ctxDone), "NextPeerEvent blocks exactly when no event is pending (and its context is live)")
		if !blocked && empty {
			vpAssert(err != nil, "with nothing pending a cancelled NextPeerEvent returns the context error")
		}
		if !blocked && !empty {
			vpAssert(err == nil, "a pending event is returned without error: an event taken out of the log is never half-delivered")
			vpAssert((evt.Type == PeerJoin) == !cons[evt.Peer], "per peer the returned events strictly alternate, starting with join")
			cons[evt.Peer] = evt.Type == PeerJoin
		}
		cancel()
		vpCover(!blocked && evt.Type == PeerLeave, "a leave is returned")
	}
	for _, q := range peers {
		e, pend := h.evtLog[q]
		if pend {
			vpAssert(truth[q] == (e == PeerJoin) && cons[q] == (e != PeerJoin), "invariant: the pending entry is the difference between the consumer's view and the truth")
		} else {
			vpAssert(truth[q] == cons[q], "invariant: without a pending entry the consumer's view is the truth (elided join+leave pairs cancel)")
		}
	}
	if len(h.evtLog) > 0 {
		vpAssert(len(h.evtLogCh) == 1, "invariant: a non-empty log keeps its wake-up signal armed (no lost wake-up)")
	}
	vpCover(len(h.evtLog) == 0 && truth["p0"] && truth["p1"], "drained with both peers present")
}

// hist: K symbolic events from the empty handler; at quiescence after draining, folding the returned events gives
// exactly the current member set.
func vpH_C18_hist() {
	K := 4
	if vpTier() > 0 {
		K = 6
	}
	h := vpNewEvtHandler()
	peers := []peer.ID{"p0", "p1"}
	truth := []bool{false, false}
	cons := []bool{false, false}
	ctx := context.Background()
	apply := func(evt PeerEvent) {
		i := 0
		if evt.Peer == "p1" {
			i = 1
		}
		vpAssert((evt.Type == PeerJoin) == !cons[i], "events of a peer alternate join/leave")
		cons[i] = evt.Type == PeerJoin
	}
	for k := 0; k < K; k++ {
		op := vpInt("op", 0, 2)
		i := vpInt("peer", 0, 1)
		switch op {
		case 0, 1:
			if truth[i] {
				h.sendNotification(PeerEvent{Type: PeerLeave, Peer: peers[i]})
			} else {
				h.sendNotification(PeerEvent{Type: PeerJoin, Peer: peers[i]})
			}
			truth[i] = !truth[i]
		case 2:
			if len(h.evtLog) > 0 {
				evt, _ := h.NextPeerEvent(ctx)
				apply(evt)
			}
		}
	}
	for d := 0; d < 2; d++ { // drain
		if len(h.evtLog) > 0 {
			evt, _ := h.NextPeerEvent(ctx)
			apply(evt)
		}
	}
	vpAssert(len(h.evtLog) == 0, "two pulls drain a log over two peers")
	vpAssert(cons[0] == truth[0] && cons[1] == truth[1], "applying the returned events in order reproduces the topic's peer set")
	vpCover(truth[0] && !truth[1] && cons[0], "p0 present at the end")
}

// sources: the event SOURCES. A real node with topic handles for t0 and t1; the handler for t0 is created by the real
// Topic.EventHandler (its seeding thunk runs in the event loop — a symbolic membership change may be processed between
// the call and the thunk); then symbolic remote events on two peers (subscribe / unsubscribe to either topic, inbound
// stream closed) interleaved with pulls. After draining, folding the returned events gives exactly the members of t0,
// events alternate per peer starting with a join, and nothing about t1 leaks into t0's stream.
func vpH_C18_sources() {
	vpOpt("unwind", 10)
	nd := vpNewNode("self", vpNodeCfg{router: "floodsub"})
	ps := nd.ps
	ps.eval = make(chan func(), 1) // (buffered: the creation call can hand its thunk over without a running loop)
	peers := []peer.ID{"p0", "p1"}
	for _, p := range peers {
		nd.vpAddPeer(p, FloodSubID, true)
	}
	t0 := &Topic{p: ps, topic: vpT0, evtHandlers: map[*TopicEventHandler]struct{}{}}
	t1 := &Topic{p: ps, topic: "t1", evtHandlers: map[*TopicEventHandler]struct{}{}}
	ps.myTopics[vpT0], ps.myTopics["t1"] = t0, t1
	// initial membership
	for _, p := range peers {
		in0, in1 := vpBool("initially_in_t0"), vpBool("initially_in_t1")
		if in0 {
			ps.handleIncomingRPC(vpSubRPC(p, vpT0, true))
		}
		if in1 {
			ps.handleIncomingRPC(vpSubRPC(p, "t1", true))
		}
	}
	event := func() {
		// (draws unconditional)
		kind, pi := vpInt("event", 0, 5), vpInt("event_peer", 0, 1)
		p := peers[pi]
		switch kind {
		case 0:
			ps.handleIncomingRPC(vpSubRPC(p, vpT0, true))
		case 1:
			ps.handleIncomingRPC(vpSubRPC(p, vpT0, false))
		case 2:
			ps.handleIncomingRPC(vpSubRPC(p, "t1", true))
		case 3:
			ps.handleIncomingRPC(vpSubRPC(p, "t1", false))
		case 4:
			ps.onClosedIncomingStream(p, FloodSubID)
		case 5: // nothing
		}
	}
	vpBlocks(func() { t0.EventHandler() }) // parks waiting for the loop to run its thunk
	event()                              // ... which may process something else first
	vpAssert(len(ps.eval) == 1, "the creation call handed its thunk to the event loop")
	(<-ps.eval)()
	vpFireAll()
	var h *TopicEventHandler
	for x := range t0.evtHandlers {
		h = x
	}
	vpAssert(h != nil && len(t0.evtHandlers) == 1, "the handler is registered")
	cons := []bool{false, false}
	ctx := context.Background()
	pull := func() {
		if len(h.evtLog) > 0 {
			evt, err := h.NextPeerEvent(ctx)
			i := 0
			if evt.Peer == "p1" {
				i = 1
			}
			vpAssert(err == nil && (evt.Peer == "p0" || evt.Peer == "p1"), "events name peers of the topic")
			vpAssert((evt.Type == PeerJoin) == !cons[i], "events of a peer alternate join / leave, starting with a join")
			cons[i] = evt.Type == PeerJoin
		}
	}
	for k := 0; k < 2; k++ {
		event()
		if vpBool("pull") {
			pull()
		}
	}
	pull()
	pull()
	vpAssert(len(h.evtLog) == 0, "two pulls drain a log over two peers")
	for i, p := range peers {
		_, in := ps.topics[vpT0][p]
		vpAssert(cons[i] == in, "applying the returned events in order reproduces the topic's peer set")
	}
	vpCover(cons[0] && !cons[1], "p0 present, p1 absent at the end")
}
