//go:build verif

package pubsub

import (
	"context"

	"github.com/libp2p/go-libp2p/core/peer"
)

// ---- C18: the peer-event stream of a topic reproduces the topic's peer set ---------------------------

func vpNewEvtHandler() *TopicEventHandler {
	return &TopicEventHandler{evtLog: make(map[peer.ID]EventType), evtLogCh: make(chan struct{}, 1)}
}

// log_step: one step (a notification admissible per the join/leave sources, or a NextPeerEvent) from an ARBITRARY
// coalescing-log state satisfying the invariant  truth(p) = fold(consumer(p), pending entry of p).
func vpH_C18_log_step() {
	h := vpNewEvtHandler()
	peers := []peer.ID{"p0", "p1"}
	truth := map[peer.ID]bool{}
	cons := map[peer.ID]bool{}
	first := vpInt("first_inserted", 0, 1) // both insertion (hence iteration) orders of the log
	for k := 0; k < 2; k++ {
		i := (k + first) % 2
		p := peers[i]
		pending, isJoin, c := vpBool("pending"), vpBool("pending_is_join"), vpBool("consumer_has")
		if pending {
			// invariant: a pending Join means the consumer does not hold p yet, a pending Leave that it does
			vpAssume(c == !isJoin)
			if isJoin {
				h.evtLog[p] = PeerJoin
			} else {
				h.evtLog[p] = PeerLeave
			}
			truth[p] = isJoin
		} else {
			truth[p] = c
		}
		cons[p] = c
	}
	signal := vpBool("signal_pending")
	if len(h.evtLog) > 0 {
		vpAssume(signal) // invariant: a non-empty log has its wake-up signal pending
	}
	if signal {
		h.evtLogCh <- struct{}{}
	}
	p := peers[vpInt("peer", 0, 1)]
	if vpBool("step_is_notification") {
		// admissible event (C18_source: join only when absent, leave only when present)
		if truth[p] {
			h.sendNotification(PeerEvent{Type: PeerLeave, Peer: p})
		} else {
			h.sendNotification(PeerEvent{Type: PeerJoin, Peer: p})
		}
		truth[p] = !truth[p]
	} else {
		ctx, cancel := context.WithCancel(context.Background())
		if vpBool("consumer_context_already_cancelled") {
			cancel()
		}
		ctxDone := ctx.Err() != nil
		empty := len(h.evtLog) == 0
		var evt PeerEvent
		var err error
		blocked := vpBlocks(func() { evt, err = h.NextPeerEvent(ctx) })
		vpAssert(blocked == (empty && !ctxDone), "NextPeerEvent blocks exactly when no event is pending (and its context is live)")
		if !blocked && empty {
			vpAssert(err != nil, "with nothing pending a cancelled NextPeerEvent returns the context error")
		}
		if !blocked && !empty {
			vpAssert(err == nil, "a pending event is returned without error: an event taken out of the log is never half-delivered")
			vpAssert((evt.Type == PeerJoin) == !cons[evt.Peer], "per peer the returned events strictly alternate, starting with join")
			cons[evt.Peer] = evt.Type == PeerJoin
		}
		cancel()
		vpCover(!blocked && evt.Type == PeerLeave, "a leave is returned")
	}
	for _, q := range peers {
		e, pend := h.evtLog[q]
		if pend {
			vpAssert(truth[q] == (e == PeerJoin) && cons[q] == (e != PeerJoin), "invariant: the pending entry is the difference between the consumer's view and the truth")
		} else {
			vpAssert(truth[q] == cons[q], "invariant: without a pending entry the consumer's view is the truth (elided join+leave pairs cancel)")
		}
	}
	if len(h.evtLog) > 0 {
		vpAssert(len(h.evtLogCh) == 1, "invariant: a non-empty log keeps its wake-up signal armed (no lost wake-up)")
	}
	vpCover(len(h.evtLog) == 0 && truth["p0"] && truth["p1"], "drained with both peers present")
}

// hist: K symbolic events from the empty handler; at quiescence after draining, folding the returned events gives
// exactly the current member set.
func vpH_C18_hist() {
	K := 4
	if vpTier() > 0 {
		K = 6
	}
	h := vpNewEvtHandler()
	peers := []peer.ID{"p0", "p1"}
	truth := []bool{false, false}
	cons := []bool{false, false}
	ctx := context.Background()
	apply := func(evt PeerEvent) {
		i := 0
		if evt.Peer == "p1" {
			i = 1
		}
		vpAssert((evt.Type == PeerJoin) == !cons[i], "events of a peer alternate join/leave")
		cons[i] = evt.Type == PeerJoin
	}
	for k := 0; k < K; k++ {
		op := vpInt("op", 0, 2)
		i := vpInt("peer", 0, 1)
		switch op {
		case 0, 1:
			if truth[i] {
				h.sendNotification(PeerEvent{Type: PeerLeave, Peer: peers[i]})
			} else {
				h.sendNotification(PeerEvent{Type: PeerJoin, Peer: peers[i]})
			}
			truth[i] = !truth[i]
		case 2:
			if len(h.evtLog) > 0 {
				evt, _ := h.NextPeerEvent(ctx)
				apply(evt)
			}
		}
	}
	for d := 0; d < 2; d++ { // drain
		if len(h.evtLog) > 0 {
			evt, _ := h.NextPeerEvent(ctx)
			apply(evt)
		}
	}
	vpAssert(len(h.evtLog) == 0, "two pulls drain a log over two peers")
	vpAssert(cons[0] == truth[0] && cons[1] == truth[1], "applying the returned events in order reproduces the topic's peer set")
	vpCover(truth[0] && !truth[1] && cons[0], "p0 present at the end")
}
