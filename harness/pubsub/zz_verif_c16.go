//go:build verif

package pubsub

import (
	"context"
	"time"

	pb "github.com/libp2p/go-libp2p-pubsub/pb"
	"github.com/libp2p/go-libp2p/core/network"
	"github.com/libp2p/go-libp2p/core/peer"
)

// ---- C16: a blacklisted peer can neither inject messages nor receive traffic -----------------------------

func vpPayloadRPC(from peer.ID, author, seqno string) *RPC {
	topic := vpT0
	return &RPC{RPC: pb.RPC{Publish: []*pb.Message{{From: []byte(author), Seqno: []byte(seqno), Data: []byte("x"), Topic: &topic}}}, from: from}
}

// blacklist_call: BlacklistPeer(x) handled by the REAL processLoop from an arbitrary state (x unknown / queue created /
// fully up and in mesh, fanout, topics), followed by symbolic follow-up events.
func vpH_C16_blacklist_call() {
	vpOpt("unwind", 10)
	w := vpNewWorld(vpWorldCfg{P: 2, params: vpSmallParams(), scoring: true, tracer: true})
	gs, ps := w.n.gs, w.n.ps
	x := w.peers[0]
	q0 := w.q[0]
	ps.mySubs[vpT0] = map[*Subscription]struct{}{} // we are subscribed: payload would be delivered
	// a backlog of 0..2 RPCs waits in x's outbound queue (slow link) at the moment of blacklisting
	backlog := vpInt("backlog_in_the_peers_queue", 0, 2)
	if w.up[0] {
		for k := 0; k < 2; k++ {
			if k < backlog {
				q0.Push(&RPC{}, k == 0)
			}
		}
	}
	vpOffer(ps.blacklistPeer, x)
	w.n.loop()
	vpAssert(ps.blacklist.Contains(x), "BlacklistPeer puts the peer into the blacklist")
	if w.up[0] {
		// the writer of x's stream asks the queue for the next RPC: it must be told the queue is closed, backlog or not
		_, perr := q0.Pop(context.Background())
		vpAssert(perr == ErrQueueClosed, "nothing further is sent to a blacklisted peer: its closed queue hands out nothing, not even RPCs queued before the blacklisting")
	}
	_, a := ps.peers[x]
	_, b := ps.topics[vpT0][x]
	_, c := gs.mesh[vpT0][x]
	_, d := gs.fanout[vpT0][x]
	_, e := gs.peers[x]
	// (peer lists are computed from the outbound queues filtered by topic membership)
	vpAssert(!a && (!w.up[0] || !b), "a blacklisted peer no longer appears in the node's peer lists for any topic")
	vpAssert(!c && !d && !e, "a blacklisted peer is removed from the router's peer set, mesh and fanout at once")
	if w.up[0] {
		vpAssert(q0.closed, "the outbound queue of a blacklisted peer is closed")
	}
	// follow-up events
	w.n.tr.evts = nil
	switch vpInt("followup", 0, 3) {
	case 0: // message forwarded by x
		ps.handleIncomingRPC(vpPayloadRPC(x, "A", "1"))
	case 1: // message authored by x, forwarded by an honest peer
		vpAssume(w.up[1])
		ps.handleIncomingRPC(vpPayloadRPC(w.peers[1], string(x), "2"))
	case 2: // x connects again: pending-peer notification
		w.n.h.net.connected[x] = true
		ps.newPeersPend[x] = struct{}{}
		ps.newPeers <- struct{}{}
		w.n.loop()
		_, again := ps.peers[x]
		vpAssert(!again, "a blacklisted peer that reconnects gets no outbound queue")
	case 3: // a heartbeat and a local publish: nothing is sent towards x
		gs.heartbeat()
		m := vpMkMsg("self", "9", vpT0)
		m.ReceivedFrom = "self"
		ps.publishMessage(m)
	}
	for _, ev := range w.n.tr.evts {
		if ev.typ == pb.TraceEvent_DELIVER_MESSAGE {
			vpAssert(ev.mid == "self9", "no message received from or authored by a blacklisted peer is delivered or forwarded")
		}
		if ev.typ == pb.TraceEvent_SEND_RPC {
			vpAssert(ev.peer != x, "nothing further is sent to a blacklisted peer")
		}
	}
	vpCover(w.up[0] && w.mesh[0], "blacklisted while in the mesh")
	vpCover(!w.up[0], "blacklisted before connecting")
	w.n.shutdown()
}

// direct_impl: the peer is put into the configured Blacklist object directly (both implementations): inbound
// messages from it or authored by it are rejected before any other processing.
func vpH_C16_direct_impl() {
	nd := vpNewNode("self", vpNodeCfg{router: "floodsub", tracer: true})
	ps := nd.ps
	ps.mySubs[vpT0] = map[*Subscription]struct{}{}
	byAuthor := vpBool("blacklisted_as_author")
	listed := vpBool("listed")
	if listed {
		ps.blacklist.Add("x")
	}
	var rpc *RPC
	if byAuthor {
		rpc = vpPayloadRPC("p1", "x", "1")
	} else {
		rpc = vpPayloadRPC("x", "A", "1")
	}
	ps.handleIncomingRPC(rpc)
	delivered := nd.tr.count(pb.TraceEvent_DELIVER_MESSAGE) > 0
	vpAssert(delivered == !listed, "a message from or authored by a blacklisted peer is dropped; others are delivered")
	if listed {
		rs := nd.tr.rejectReasons()
		want := RejectBlacklstedPeer
		if byAuthor {
			want = RejectBlacklistedSource
		}
		vpAssert(len(rs) == 1 && rs[0] == want, "the rejection is traced with the blacklist reason")
	}
	vpCover(listed && byAuthor, "blocked by author")
}

// in_flight: a message of x that already sits in the validation pipeline when x is blacklisted must not be delivered
// once validation completes.
func vpH_C16_in_flight() {
	nd := vpNewNode("self", vpNodeCfg{router: "floodsub", tracer: true})
	ps := nd.ps
	ps.mySubs[vpT0] = map[*Subscription]struct{}{}
	byAuthor := vpBool("blacklisted_as_author")
	v, err := ps.val.makeValidator(&addValReq{topic: vpT0, validate: func(ctx context.Context, p peer.ID, m *Message) ValidationResult {
		return ValidationAccept
	}}, ps.logger)
	vpAssume(err == nil)
	ps.val.topicVals[vpT0] = v
	if byAuthor {
		ps.handleIncomingRPC(vpPayloadRPC("p1", "x", "1"))
	} else {
		ps.handleIncomingRPC(vpPayloadRPC("x", "A", "1"))
	}
	vpAssert(len(ps.val.validateQ) == 1, "the message entered the validation pipeline")
	vpOffer(ps.blacklistPeer, peer.ID("x"))
	nd.loop()
	// the validation worker picks the request up and releases it to the event loop
	req := <-ps.val.validateQ
	ps.val.validate(req.vals, req.src, req.msg, false, ps.val.sendMsgBlocking)
	vpFireAll()
	nd.loop()
	vpAssert(nd.tr.count(pb.TraceEvent_DELIVER_MESSAGE) == 0, "a message in flight in the validation pipeline is not delivered after its source or author was blacklisted")
	vpCover(byAuthor, "by author")
	nd.shutdown()
}

// late_stream: the peer is put into the configured blacklist directly (Blacklist.Add on the user-supplied implementation)
// after the event loop created its outbound queue and before the outbound stream is handed over: the stream is refused,
// the queue closed, the peer removed; nothing is sent to it.
type vpCancelRec struct{ n int }

func (c *vpCancelRec) cancel() { c.n++ }

func vpH_C16_late_stream() {
	vpOpt("unwind", 10)
	w := vpNewWorld(vpWorldCfg{P: 2, params: vpSmallParams(), scoring: true, tracer: true})
	gs, ps := w.n.gs, w.n.ps
	x := w.peers[0]
	vpAssume(w.up[0])
	q0 := w.q[0]
	listed := vpBool("listed_directly")
	if listed {
		ps.blacklist.Add(x)
	}
	proto := GossipSubID_v11
	first := make(chan *RPC, 1)
	rec := &vpCancelRec{}
	vpOffer(ps.newPeerStream, peerOutgoingStream{
		Stream:       &vpStream{proto: proto, conn: &vpConn{remote: x, dir: network.DirOutbound, proto: proto}},
		FirstMessage: first,
		Cancel:       rec.cancel,
	})
	w.n.loop()
	_, inPeers := ps.peers[x]
	if listed {
		vpAssert(!inPeers, "a peer blacklisted before its outbound stream completes is removed from the peer table")
		vpAssert(q0.closed, "its outbound queue is closed")
		vpAssert(len(first) == 0 && rec.n == 1, "the stream is cancelled and no hello packet is handed to it")
		ps.mySubs[vpT0] = map[*Subscription]struct{}{}
		gs.heartbeat()
		m := vpMkMsg("self", "9", vpT0)
		m.ReceivedFrom = "self"
		ps.publishMessage(m)
		vpAssert(len(vpDrain(q0)) == 0, "nothing is queued towards the blacklisted peer afterwards")
	} else {
		vpAssert(inPeers && len(first) == 1 && rec.n == 0, "a peer that is not blacklisted gets its hello packet")
	}
	vpCover(listed, "listed")
	vpCover(!listed, "not listed")
	w.n.shutdown()
}

// timecached: the same BlacklistPeer step with the REAL TimeCachedBlacklist installed, the peer possibly put into it
// directly beforehand (its Add then reports "already there"): the clean-up of BlacklistPeer happens all the same.
func vpH_C16_timecached() {
	vpOpt("unwind", 10)
	w := vpNewWorld(vpWorldCfg{P: 2, params: vpSmallParams(), scoring: true})
	gs, ps := w.n.gs, w.n.ps
	bl, err := NewTimeCachedBlacklist(time.Hour)
	vpAssume(err == nil)
	vpDropPending() // (the cache's sweeper goroutine: entries live an hour, nothing expires in this step)
	ps.blacklist = bl
	x := w.peers[0]
	q0 := w.q[0]
	already := vpBool("already_listed_directly")
	if already {
		bl.Add(x)
	}
	vpOffer(ps.blacklistPeer, x)
	w.n.loop()
	vpAssert(ps.blacklist.Contains(x), "BlacklistPeer puts the peer into the blacklist")
	_, a := ps.peers[x]
	_, b := ps.topics[vpT0][x]
	_, c := gs.mesh[vpT0][x]
	_, d := gs.fanout[vpT0][x]
	_, e := gs.peers[x]
	vpAssert(!a && (!w.up[0] || !b), "a blacklisted peer no longer appears in the node's peer lists for any topic (also when it was already listed)")
	vpAssert(!c && !d && !e, "a blacklisted peer is removed from the router's peer set, mesh and fanout at once (also when it was already listed)")
	if w.up[0] {
		vpAssert(q0.closed, "the outbound queue of a blacklisted peer is closed")
	}
	ps.handleIncomingRPC(vpPayloadRPC(x, "A", "1"))
	vpAssert(len(ps.val.validateQ) == 0, "nothing from it enters validation")
	vpCover(already && w.up[0] && w.mesh[0], "already listed, still connected and in the mesh")
	bl.(*TimeCachedBlacklist).tc.Done() // (native run: the cache's sweeper goroutine must end with the test)
	w.n.shutdown()
}
