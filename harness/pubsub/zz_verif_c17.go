//go:build verif

package pubsub

import (
	pb "github.com/libp2p/go-libp2p-pubsub/pb"
	"github.com/libp2p/go-libp2p/core/peer"
)

// ---- C17: gossip stays within its protocol bounds and message-cache windows -----------------------

func vpMkMsg(from, seqno, topic string) *Message {
	return &Message{Message: &pb.Message{From: []byte(from), Seqno: []byte(seqno), Topic: &topic}}
}

// mcache: K symbolic Put/Get/GetForPeer/GetGossipIDs/Shift operations against a ghost age per message.
// Precondition (guaranteed upstream by the seen cache, C02): an ID is Put at most once per window.
func vpMcacheHist(g, h, K int) {
	mc := NewMessageCache(g, h)
	topics := []string{"t0", "t1"}
	peers := []peer.ID{"p0", "p1"}
	mt := []int{vpInt("topic_of_msg", 0, 1), vpInt("topic_of_msg", 0, 1)}
	msgs := []*Message{vpMkMsg("A", "1", topics[mt[0]]), vpMkMsg("A", "2", topics[mt[1]])}
	ids := []string{"A1", "A2"}
	age := []int{-1, -1}
	var tx [2][2]int
	served := false
	for i := 0; i < K; i++ {
		op := vpInt("op", 0, 4)
		mi := vpInt("msg", 0, 1)
		pi := vpInt("peer", 0, 1)
		ti := vpInt("topic", 0, 1)
		switch op {
		case 0:
			if age[mi] < 0 {
				mc.Put(msgs[mi])
				age[mi] = 0
			}
		case 1:
			m, ok := mc.Get(ids[mi])
			vpAssert(ok == (age[mi] >= 0), "a message is retrievable exactly during its HistoryLength heartbeats")
			vpAssert(!ok || m == msgs[mi], "Get returns the cached message itself")
		case 2:
			m, n, ok := mc.GetForPeer(ids[mi], peers[pi])
			vpAssert(ok == (age[mi] >= 0), "GetForPeer serves exactly the messages inside the history window")
			if ok {
				tx[mi][pi]++
				vpAssert(n == tx[mi][pi] && m == msgs[mi], "per-peer transmission count is exact")
				served = true
			}
		case 3:
			got := mc.GetGossipIDs(topics[ti])
			for j := 0; j < 2; j++ {
				c := 0
				for _, id := range got {
					if id == ids[j] {
						c++
					}
				}
				want := 0
				if age[j] >= 0 && age[j] < g && mt[j] == ti {
					want = 1
				}
				vpAssert(c == want, "an ID is advertised exactly once, only during its first HistoryGossip heartbeats and only for its topic")
			}
		case 4:
			mc.Shift()
			for j := 0; j < 2; j++ {
				if age[j] >= 0 {
					age[j]++
					if age[j] >= h {
						age[j] = -1
						tx[j] = [2]int{}
					}
				}
			}
		}
	}
	vpCover(served && age[0] < 0 && age[1] >= g, "one message expired, the other beyond the gossip window")
}

func vpH_C17_mcache() {
	// (a thorough variant - all six window shapes g <= h <= 3 with K=7 - was registered earlier; it could not be re-run to
	// completion within the time available in the last session (> 15 min), so both tiers now run the quick bound)
	vpMcacheHist(1, 2, 6)
	vpMcacheHist(2, 3, 6)
}
