//go:build verif

package pubsub

import (
	"errors"
	"iter"
	"sort"
	"strings"
)

// Engine self-test corpus (property id S00, not a repository property): concrete and symbolic
// mini-programs whose expected results are asserted; `vcheck selftest` runs them through the symbolic
// evaluator AND natively (sample replay), so a disagreement between symgo's semantics and the Go
// compiler's shows up as a failed assertion on one side.

type vpSTPoint struct{ X, Y int }

func (p vpSTPoint) Sum() int   { return p.X + p.Y }
func (p *vpSTPoint) Scale(k int) { p.X *= k; p.Y *= k }

type vpSTShape interface{ Area() int }
type vpSTSquare struct{ S int }
type vpSTRect struct{ W, H int }

func (s vpSTSquare) Area() int { return s.S * s.S }
func (r *vpSTRect) Area() int  { return r.W * r.H }

type vpSTOuter struct {
	vpSTPoint
	Name string
}

func vpSTdeferOrder() (s string) {
	defer func() { s += "c" }()
	defer func() { s += "b" }()
	s = "a"
	return s + "x"
}

func vpSTvariadic(xs ...int) int {
	t := 0
	for _, x := range xs {
		t += x
	}
	return t
}

func vpSTgeneric[T comparable](xs []T, y T) int {
	for i, x := range xs {
		if x == y {
			return i
		}
	}
	return -1
}

func vpSTseq(n int) iter.Seq[int] {
	return func(yield func(int) bool) {
		for i := 0; i < n; i++ {
			if !yield(i) {
				return
			}
		}
	}
}

func vpH_S00_concrete() {
	// closures capture by reference
	x := 1
	inc := func() { x++ }
	inc()
	inc()
	vpAssert(x == 3, "closure capture")
	// closures in loops capture per-iteration variables (go >= 1.22)
	var fs []func() int
	for i := 0; i < 3; i++ {
		fs = append(fs, func() int { return i })
	}
	vpAssert(fs[0]() == 0 && fs[2]() == 2, "per-iteration loop variable")
	// defer order and named results
	vpAssert(vpSTdeferOrder() == "axbc", "defer LIFO with named result")
	// maps
	var nm map[string]int
	vpAssert(nm["a"] == 0 && len(nm) == 0, "nil map read")
	m := map[string]int{"a": 1, "b": 2, "c": 3}
	delete(m, "b")
	_, ok := m["b"]
	vpAssert(!ok && len(m) == 2, "map delete")
	m["d"] = 4
	sum := 0
	for k, v := range m {
		if k == "zz" {
			continue
		}
		sum += v
	}
	vpAssert(sum == 8, "map range sum")
	// slices: append aliasing
	a := make([]int, 2, 4)
	b := append(a, 7)
	c := append(a, 9)
	vpAssert(b[2] == 9 && c[2] == 9 && len(a) == 2, "append shares spare capacity")
	d := append(c, 1, 2)
	d[0] = 42
	vpAssert(a[0] == 0 && len(d) == 5, "append beyond capacity copies")
	s := []int{1, 2, 3, 4, 5}
	copy(s[1:], s)
	vpAssert(s[0] == 1 && s[1] == 1 && s[2] == 2 && s[4] == 4, "copy with overlap")
	s2 := s[1:3:4]
	vpAssert(len(s2) == 2 && cap(s2) == 3, "three-index slice")
	s = append(s[:1], s[2:]...)
	vpAssert(len(s) == 4 && s[1] == 2, "delete from slice idiom")
	// strings and bytes
	bs := []byte("hello")
	bs[0] = 'j'
	str := string(bs)
	vpAssert(str == "jello" && len(str) == 5 && str[1] == 'e', "string/bytes conversion copies")
	vpAssert(str[1:3] == "el" && str+"!" == "jello!", "string slicing and concat")
	vpAssert(strings.HasPrefix(str, "je") && "a" < "b", "string helpers")
	cnt := 0
	for i, r := range "héy" {
		cnt += i + int(r)
	}
	vpAssert(cnt == 0+'h'+1+'é'+3+'y', "range over string decodes runes")
	// integers
	var u8 uint8 = 250
	u8 += 10
	var i8 int8 = -128
	vpAssert(u8 == 4 && -i8 == -128 && int(int8(200-256)) == -56, "wrap-around")
	var sh uint = 70
	vpAssert(1<<sh == 0 && (-8)>>1 == -4 && uint32(1)<<31>>31 == 1, "shifts")
	vpAssert(-7/2 == -3 && -7%2 == -1 && 7/-2 == -3, "signed division truncates")
	var big uint64 = 1 << 63
	vpAssert(int64(big) < 0 && uint32(big>>32) == 1<<31, "conversions")
	f := 2.75
	vpAssert(int(f) == 2 && int(-f) == -2 && float64(3)/2 == 1.5, "float conversions")
	// structs, arrays, methods
	p := vpSTPoint{1, 2}
	q := p
	q.X = 10
	arr := [3]int{1, 2, 3}
	arr2 := arr
	arr2[0] = 9
	vpAssert(p.X == 1 && arr[0] == 1 && p == vpSTPoint{1, 2} && arr != arr2, "value semantics")
	p.Scale(3)
	sumf := p.Sum
	vpAssert(p.Y == 6 && sumf() == 9, "pointer receiver and method value")
	o := vpSTOuter{vpSTPoint{2, 3}, "o"}
	o.Scale(2)
	vpAssert(o.Sum() == 10 && o.X == 4, "promoted methods")
	// interfaces
	shapes := []vpSTShape{vpSTSquare{3}, &vpSTRect{2, 5}}
	tot := 0
	for _, sh := range shapes {
		switch v := sh.(type) {
		case vpSTSquare:
			tot += v.S
		case *vpSTRect:
			tot += v.W * 100
		}
		tot += sh.Area()
	}
	vpAssert(tot == 3+9+200+10, "type switch and dynamic dispatch")
	var e1 error = errors.New("x")
	e2 := e1
	var e3 error
	vpAssert(e1 == e2 && e3 == nil && e1 != nil && e1.Error() == "x", "interface equality")
	_, isSq := shapes[1].(vpSTSquare)
	vpAssert(!isSq, "comma-ok assertion")
	// control flow
	total := 0
outer:
	for i := 0; i < 5; i++ {
		for j := 0; j < 5; j++ {
			if j == 3 {
				continue outer
			}
			if i == 3 {
				break outer
			}
			total += i*10 + j
		}
	}
	vpAssert(total == (0+1+2)+(10+11+12)+(20+21+22), "labeled break/continue")
	sw := 0
	switch total {
	case 99:
		sw = 1
		fallthrough
	case 100:
		sw += 2
	default:
		sw = 7
	}
	vpAssert(sw == 3, "switch fallthrough")
	vpAssert(vpSTvariadic() == 0 && vpSTvariadic(1, 2, 3) == 6 && vpSTvariadic(s...) == 1+2+3+4, "variadic")
	vpAssert(vpSTgeneric([]string{"a", "b"}, "b") == 1 && vpSTgeneric([]int{1}, 5) == -1, "generics")
	acc := 0
	for v := range vpSTseq(10) {
		if v == 4 {
			break
		}
		acc += v
	}
	vpAssert(acc == 6, "range over func with break")
	// channels and select
	ch := make(chan int, 2)
	ch <- 1
	ch <- 2
	got := -1
	select {
	case ch <- 3:
		got = 0
	default:
		got = 1
	}
	v1 := <-ch
	close(ch)
	v2, ok2 := <-ch
	v3, ok3 := <-ch
	vpAssert(got == 1 && v1 == 1 && v2 == 2 && ok2 && v3 == 0 && !ok3 && len(ch) == 0, "buffered channel, select default, close")
	// sort.Slice
	xs := []int{5, 2, 8, 1}
	sort.Slice(xs, func(i, j int) bool { return xs[i] < xs[j] })
	vpAssert(xs[0] == 1 && xs[1] == 2 && xs[2] == 5 && xs[3] == 8, "sort.Slice")
	// panics
	vpAssert(vpPanics(func() { _ = xs[len(xs)] }) && vpPanics(func() { var mm map[int]int; mm[1] = 1 }) && !vpPanics(func() {}), "panics detected")
	var np *vpSTPoint
	vpAssert(vpPanics(func() { _ = np.X }), "nil dereference panics")
	z := 0
	vpAssert(vpPanics(func() { _ = 1 / z }), "division by zero panics")
	vpCover(true, "ran")
}

// symbolic: the same constructs with solver-chosen inputs; expectations are computed independently.
func vpH_S00_symbolic() {
	n := vpInt("n", 0, 5)
	// loop with symbolic bound and early exit; value defined in the loop used after it
	last := -1
	sum := 0
	for i := 0; i < n; i++ {
		if i == 3 {
			break
		}
		last = i
		sum += i
	}
	wantLast, wantSum := -1, 0
	switch {
	case n >= 3:
		wantLast, wantSum = 2, 3
	case n == 2:
		wantLast, wantSum = 1, 1
	case n == 1:
		wantLast, wantSum = 0, 0
	}
	vpAssert(last == wantLast && sum == wantSum, "symbolic loop bound with break")
	// map with symbolic presence
	m := map[string]int{}
	ba, bb, bc := vpBool("a"), vpBool("b"), vpBool("c")
	if ba {
		m["a"] = 1
	}
	if bb {
		m["b"] = 2
	}
	if bc {
		m["c"] = 4
	}
	cnt, tot := 0, 0
	for _, v := range m {
		cnt++
		tot += v
	}
	want := 0
	wc := 0
	if ba {
		want += 1
		wc++
	}
	if bb {
		want += 2
		wc++
	}
	if bc {
		want += 4
		wc++
	}
	vpAssert(cnt == wc && tot == want && len(m) == wc, "range over map with symbolic presence")
	// delete while iterating, first match returns
	first := ""
	for k := range m {
		if k != "a" {
			first = k
			break
		}
	}
	vpAssert((first == "") == (!bb && !bc), "break out of symbolic map range")
	if bb {
		delete(m, "b")
	}
	_, okb := m["b"]
	vpAssert(!okb, "guarded delete")
	// symbolic key
	keys := []string{"a", "b", "c"}
	k := keys[vpInt("k", 0, 2)]
	m2 := map[string]int{"a": 10, "b": 20}
	m2[k] += 5
	vpAssert(m2["a"]+m2["b"]+m2["c"] == 35 && (k != "c" || len(m2) == 3), "symbolic map key update")
	// slices with symbolic length
	var xs []int
	for i := 0; i < n; i++ {
		xs = append(xs, i*i)
	}
	vpAssert(len(xs) == n, "append in symbolic loop")
	if n > 2 {
		vpAssert(xs[2] == 4 && xs[n-1] == (n-1)*(n-1), "element at symbolic index")
		ys := xs[1:n]
		vpAssert(len(ys) == n-1 && ys[0] == 1, "slicing by symbolic bound")
	}
	idx := vpInt("idx", 0, 7)
	oob := vpPanics(func() { _ = xs[idx] })
	vpAssert(oob == (idx >= n), "bounds check with symbolic index and length")
	// sort with symbolic values
	v := []int{vpInt("v0", 0, 9), vpInt("v1", 0, 9), vpInt("v2", 0, 9)}
	sort.Slice(v, func(i, j int) bool { return v[i] < v[j] })
	vpAssert(v[0] <= v[1] && v[1] <= v[2], "sort.Slice on symbolic values")
	// interface union
	var sh vpSTShape
	if vpBool("square") {
		sh = vpSTSquare{n}
	} else {
		sh = &vpSTRect{n, 2}
	}
	ar := sh.Area()
	vpAssert(ar == n*n || ar == 2*n, "dynamic dispatch over a union")
	// pointer union and stores through it
	p1, p2 := &vpSTPoint{1, 1}, &vpSTPoint{2, 2}
	pp := p1
	if vpBool("second") {
		pp = p2
	}
	pp.X = 100
	vpAssert(p1.X+p2.X == 102 || p1.X+p2.X == 101, "store through pointer union")
	vpAssert((pp == p1) == (p1.X == 100), "pointer equality")
	// arithmetic: wrap-around decided by the solver
	a64 := vpInt64("a64")
	vpAssert((a64+1 > a64) == (a64 != 1<<63-1), "signed overflow wraps")
	u := vpUint64("u")
	vpAssert(u>>63 <= 1 && (u&1 == 1) == (u%2 == 1), "unsigned ops")
	// channel with symbolic content
	ch := make(chan int, 3)
	pushed := 0
	for i := 0; i < 3; i++ {
		if vpBool("push") {
			ch <- i
			pushed++
		}
	}
	vpAssert(len(ch) == pushed, "channel length")
	if pushed > 0 {
		x := <-ch
		vpAssert(x <= 2 && len(ch) == pushed-1, "receive from symbolic buffer")
	}
	blocked := vpBlocks(func() {
		for len(ch) > 0 {
			<-ch
		}
		<-ch
	})
	vpAssert(blocked, "receive on empty open channel blocks")
	vpCover(n == 5 && ba && !bb, "n=5")
	vpCover(n == 0, "n=0")
}

// gocap: with vpOpt("gocap", 1) the evaluator grows the capacity of HEAP slices exactly like the gc runtime's growslice
// (checked against the real runtime by the native run of this very harness). Slices that do not escape may get a
// stack buffer of another capacity from the compiler (go1.25+); the model is only used for slices held in heap objects.
type vpCapSink struct {
	ps   []*int
	p3   []*int
	p5   []*int
	bs   []byte
	ss   []string
}

var vpCapSinkG *vpCapSink

func vpH_S00_gocap() {
	vpOpt("gocap", 1)
	k := &vpCapSink{}
	vpCapSinkG = k
	caps := []int{1, 2, 4, 4, 8, 8, 8, 8, 16}
	for i := 0; i < 9; i++ {
		k.ps = append(k.ps, nil)
		vpAssert(cap(k.ps) == caps[i], "pointer slice grown one by one: 1,2,4,4,8,8,8,8,16")
	}
	k.p3 = append(k.p3, k.ps[:3]...)
	vpAssert(cap(k.p3) == 3, "append(nil, three pointers...) has capacity 3 (24-byte size class)")
	k.p5 = append(k.p5, k.ps[:5]...)
	vpAssert(cap(k.p5) == 6, "append(nil, five pointers...) has capacity 6 (48-byte size class)")
	k.bs = append(k.bs, 1, 2, 3, 4, 5)
	vpAssert(cap(k.bs) == 8, "five bytes land in the 8-byte size class")
	k.bs = append(k.bs, 6, 7, 8, 9)
	vpAssert(cap(k.bs) == 16, "doubling")
	k.ss = append(k.ss, "a")
	k.ss = append(k.ss, "b")
	k.ss = append(k.ss, "c")
	vpAssert(cap(k.ss) == 4, "string slice grown one by one to three has capacity 4")
	// aliasing through spare capacity
	x := append(k.ss, "x")
	y := append(k.ss, "y")
	vpAssert(x[3] == "y" && y[3] == "y", "two appends to a slice with spare capacity share the cell")
	vpCover(true, "ran")
}
