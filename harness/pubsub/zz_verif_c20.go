//go:build verif

package pubsub

import (
	"context"
	"encoding/binary"
	"errors"

	pb "github.com/libp2p/go-libp2p-pubsub/pb"
	"github.com/libp2p/go-libp2p/core/peer"
)

// ---- C20: the sequence-number validator never accepts a replay -----------------------------------

// vpFakeStore is a PeerMetadataStore for one author whose failures are chosen by the solver.
type vpFakeStore struct {
	val     map[peer.ID][]byte
	getErr  bool
	putErr  bool
	puts    int
	lastPut []byte
}

var vpErrStore = errors.New("store error")

func (s *vpFakeStore) Get(_ context.Context, p peer.ID) ([]byte, error) {
	if s.getErr {
		return nil, vpErrStore
	}
	return s.val[p], nil
}

func (s *vpFakeStore) Put(_ context.Context, p peer.ID, v []byte) error {
	s.puts++
	s.lastPut = v
	if s.putErr {
		return vpErrStore
	}
	s.val[p] = v
	return nil
}

func vpSeqnoMsg(from string, seqno []byte) *Message {
	return &Message{Message: &pb.Message{From: []byte(from), Seqno: seqno}}
}

// step: one validation from an arbitrary store state; all 2^64 x 2^64 (seqno, nonce) pairs.
func vpH_C20_step() {
	store := &vpFakeStore{val: map[peer.ID][]byte{}}
	has := vpBool("has_nonce")
	var nonce uint64
	if has {
		nb := vpBytes("nonce", 8)
		store.val["A"] = nb
		nonce = binary.BigEndian.Uint64(nb)
	}
	store.getErr = vpBool("get_err")
	v := &BasicSeqnoValidator{meta: store}
	sb := vpBytes("seqno", 8)
	seqno := binary.BigEndian.Uint64(sb)
	r := v.validate(context.Background(), "B", vpSeqnoMsg("A", sb))

	vpAssert(r == ValidationAccept || r == ValidationIgnore, "verdict is Accept or Ignore, never Reject")
	vpAssert((r == ValidationAccept) == (!store.getErr && seqno > nonce), "Accept iff seqno > stored nonce and the store could be read")
	if r == ValidationAccept {
		vpAssert(store.puts == 1, "accepted: exactly one store update")
		got := store.val["A"]
		vpAssert(len(got) == 8 && binary.BigEndian.Uint64(got) == seqno, "accepted: store holds exactly the accepted seqno")
	} else {
		vpAssert(store.puts == 0, "ignored: store untouched")
	}
	if !store.getErr {
		var after uint64
		if b := store.val["A"]; len(b) > 0 {
			after = binary.BigEndian.Uint64(b)
		}
		vpAssert(after >= nonce, "stored nonce never decreases")
	}
	vpCover(r == ValidationAccept && has, "accept over an existing nonce")
	vpCover(r == ValidationIgnore && has && seqno == nonce, "replay of the stored seqno is ignored")
	vpCover(r == ValidationIgnore && !has && seqno == 0, "seqno zero with empty store is ignored")
	vpCover(r == ValidationAccept && seqno == ^uint64(0), "maximum seqno accepted")
}

// length: seqno of any length 0..9 (wrong-length encodings from a remote peer) must not panic.
func vpH_C20_length() {
	store := &vpFakeStore{val: map[peer.ID][]byte{}}
	if vpBool("has_nonce") {
		store.val["A"] = vpBytes("nonce", 8)
	}
	v := &BasicSeqnoValidator{meta: store}
	n := vpInt("seqno_len", 0, 9)
	sb := vpBytesLen("seqno", n, 9)
	var r ValidationResult
	panicked := vpPanics(func() { r = v.validate(context.Background(), "B", vpSeqnoMsg("A", sb)) })
	vpAssert(!panicked, "validator does not panic on a wrong-length seqno")
	if !panicked {
		vpAssert(r == ValidationAccept || r == ValidationIgnore || r == ValidationReject, "verdict in range")
	}
	vpCover(n == 8 && r == ValidationAccept, "well-formed accept")
	vpCover(n == 3, "three-byte seqno")
}

// hist: K messages of one author validated sequentially; accepted seqnos strictly increase and the
// store always equals the highest accepted seqno.
func vpH_C20_hist() {
	K := 4
	if vpTier() > 0 {
		K = 6
	}
	store := &vpFakeStore{val: map[peer.ID][]byte{}}
	v := &BasicSeqnoValidator{meta: store}
	var high uint64
	accepted := 0
	for i := 0; i < K; i++ {
		sb := vpBytes("seqno", 8)
		s := binary.BigEndian.Uint64(sb)
		r := v.validate(context.Background(), "B", vpSeqnoMsg("A", sb))
		if r == ValidationAccept {
			vpAssert(s > high, "accepted seqnos are strictly increasing")
			high = s
			accepted++
		} else {
			vpAssert(r == ValidationIgnore, "a non-accepted message is ignored, not rejected")
			vpAssert(s <= high, "only non-increasing seqnos are ignored")
		}
		var cur uint64
		if b := store.val["A"]; len(b) > 0 {
			cur = binary.BigEndian.Uint64(b)
		}
		vpAssert(cur == high, "store equals the highest accepted seqno")
	}
	vpCover(accepted == K, "all accepted")
	vpCover(accepted == 1, "only the first accepted")
}

// two_concurrent: two validations for the same author run concurrently (every interleaving of their lock operations,
// symbolic seqnos): the same seqno is never accepted twice and the store ends at the highest accepted seqno.
func vpHC_C20_two_concurrent() {
	store := &vpFakeStore{val: map[peer.ID][]byte{}}
	v := &BasicSeqnoValidator{meta: store}
	b1, b2 := vpBytes("seqno", 8), vpBytes("seqno", 8)
	s1, s2 := binary.BigEndian.Uint64(b1), binary.BigEndian.Uint64(b2)
	var r1, r2 ValidationResult
	t1 := vpGo(func() { r1 = v.validate(context.Background(), "B", vpSeqnoMsg("A", b1)) })
	t2 := vpGo(func() { r2 = v.validate(context.Background(), "B", vpSeqnoMsg("A", b2)) })
	vpWait()
	vpAssert(vpThreadDone(t1) && vpThreadDone(t2), "both validations return")
	a1, a2 := r1 == ValidationAccept, r2 == ValidationAccept
	if a1 && a2 {
		vpAssert(s1 != s2, "the same sequence number is never accepted twice, also when validated concurrently")
	}
	var cur uint64
	if b := store.val["A"]; len(b) > 0 {
		cur = binary.BigEndian.Uint64(b)
	}
	var high uint64
	if a1 {
		high = s1
	}
	if a2 && s2 > high {
		high = s2
	}
	vpAssert(cur == high, "the stored nonce equals the highest accepted sequence number")
	vpAssert((a1 || r1 == ValidationIgnore) && (a2 || r2 == ValidationIgnore), "a well-formed message that loses the race is IGNORED (not rejected: its forwarders are not penalised), whichever check catches it")
	if s1 > 0 && s2 > 0 {
		vpAssert(a1 || a2, "one of two fresh sequence numbers is accepted")
	}
	vpCover(a1 && a2, "both accepted")
	vpCover(a1 != a2 && s1 != s2, "one ignored because it lost the race")
}

// in_pipeline: the validator installed as a DEFAULT validator and run by the real validation pipeline next to an
// accepting topic validator, each of them inline or asynchronous (solver variables), from an arbitrary stored nonce: a
// message whose sequence number is not greater than the stored one is neither released (delivered / forwarded) nor
// reported as a validation failure (no penalty) - whatever the other validator says and wherever the two run; a fresh
// one is released once and the nonce advances.
func vpH_C20_in_pipeline() {
	vpOpt("bagchans", 1)
	nd := vpNewNode("self", vpNodeCfg{router: "floodsub", tracer: true})
	v := nd.ps.val
	store := &vpFakeStore{val: map[peer.ID][]byte{}}
	has := vpBool("has_nonce")
	var nonce uint64
	if has {
		nb := vpBytes("nonce", 8)
		store.val["A"] = nb
		nonce = binary.BigEndian.Uint64(nb)
	}
	sv := &BasicSeqnoValidator{meta: store}
	seqVal, err := v.makeValidator(&addValReq{validate: ValidatorEx(sv.validate)}, nd.ps.logger)
	vpAssume(err == nil)
	seqVal.validateInline = vpBool("seqno_validator_inline")
	topicVal, err := v.makeValidator(&addValReq{topic: vpT0, validate: func(ctx context.Context, p peer.ID, m *Message) ValidationResult {
		return ValidationAccept
	}}, nd.ps.logger)
	vpAssume(err == nil)
	topicVal.validateInline = vpBool("topic_validator_inline")
	seqFirst := vpBool("seqno_validator_first")
	vals := []*validatorImpl{seqVal, topicVal}
	if !seqFirst {
		vals = []*validatorImpl{topicVal, seqVal}
	}
	sb := vpBytes("seqno", 8)
	seqno := binary.BigEndian.Uint64(sb)
	topic := vpT0
	msg := &Message{Message: &pb.Message{From: []byte("A"), Seqno: sb, Topic: &topic, Data: []byte("x")}, ReceivedFrom: "p0"}
	released := 0
	v.validate(vals, "p0", msg, false, func(*Message) error { released++; return nil })
	vpFireAll()
	reasons := nd.tr.rejectReasons()
	fresh := seqno > nonce // (an author without stored nonce counts as nonce 0)
	if fresh {
		vpAssert(released == 1 && len(reasons) == 0, "a message with a greater sequence number is released exactly once")
		vpAssert(binary.BigEndian.Uint64(store.val["A"]) == seqno, "and the stored nonce advances to it")
	} else {
		vpAssert(released == 0, "a replayed or stale sequence number is never released for delivery or forwarding, whatever other validators say")
		vpAssert(len(reasons) == 1 && reasons[0] == RejectValidationIgnored, "it is ignored, not reported as a validation failure: nobody is penalised")
		if has {
			vpAssert(binary.BigEndian.Uint64(store.val["A"]) == nonce, "the stored nonce is unchanged")
		} else {
			vpAssert(len(store.val["A"]) == 0, "nothing is stored")
		}
	}
	vpCover(!fresh && seqVal.validateInline && topicVal.validateInline && seqFirst, "stale, both inline, seqno validator first")
	vpCover(fresh && !seqVal.validateInline, "fresh, asynchronous")
}
