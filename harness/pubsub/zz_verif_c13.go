//go:build verif

package pubsub

import (
	"time"

	pb "github.com/libp2p/go-libp2p-pubsub/pb"
	"github.com/libp2p/go-libp2p/core/network"
	"github.com/libp2p/go-libp2p/core/peer"
)

// ---- C13: all state attributable to a peer is reclaimed after it disconnects ----------------------------

// teardown: peer x = p0 may own an entry in every per-peer structure; its two stream directions die in a symbolic
// order with an optional late GRAFT arriving on the inbound stream that outlives the outbound one; then the
// retention periods pass (clock advanced, one full heartbeat on a backoff-clearing tick, score refresh).
func vpH_C13_teardown_gs() {
	vpOpt("unwind", 10)
	w := vpNewWorld(vpWorldCfg{P: 2, params: vpSmallParams(), scoring: true})
	gs, ps := w.n.gs, w.n.ps
	x := w.peers[0]
	vpAssume(w.up[0])
	proto := vpProtos[w.proto[0]]
	// more per-peer state: pending gossip / control retries, flood counters, IDONTWANT records
	topic := vpT0
	if vpBool("pending_gossip") {
		gs.gossip[x] = []*pb.ControlIHave{{TopicID: &topic, MessageIDs: []string{"m"}}}
	}
	if vpBool("pending_control") {
		gs.control[x] = &pb.ControlMessage{Prune: []*pb.ControlPrune{{TopicID: &topic}}}
	}
	if vpBool("counters") {
		gs.peerhave[x], gs.iasked[x], gs.peerdontwant[x] = 1, 1, 1
	}
	if vpBool("unwanted") {
		gs.unwanted[x] = map[checksum]int{computeChecksum("m"): gs.params.IDontWantMessageTTL}
	}
	if w.mesh[0] {
		gs.tagTracer.Graft(x, vpT0) // the protection a mesh member carries
	}
	if vpBool("ip_tracked") { // IP colocation bookkeeping of the peer
		if st, ok := gs.score.peerStats[x]; ok {
			st.ips = []string{"1.2.3.4"}
			gs.score.peerIPs["1.2.3.4"] = map[peer.ID]struct{}{x: {}}
		}
	}
	inboundFirst := vpBool("inbound_closes_first")
	lateGraft := vpBool("late_graft_on_surviving_inbound_stream")
	lateExt := vpBool("late_rpc_is_first_rpc")
	closeOutbound := func() {
		w.n.h.net.connected[x] = false
		ps.peerDeadPend[x] = struct{}{}
		ps.handleDeadPeers()
	}
	closeInbound := func() { ps.onClosedIncomingStream(x, proto) }
	late := func() {
		if lateGraft {
			ps.handleIncomingRPC(&RPC{RPC: pb.RPC{Control: vpGraftCtl(vpT0)}, from: x})
		} else if lateExt {
			ps.handleIncomingRPC(&RPC{from: x})
		}
	}
	if inboundFirst {
		closeInbound()
		closeOutbound()
	} else {
		closeOutbound()
		late() // the inbound stream is still open: RPCs keep arriving on it
		closeInbound()
	}
	_ = network.Connected
	// retention: every configured period elapses, the periodic clean-ups run
	vpAdvance(gs.params.PruneBackoff + gs.params.UnsubscribeBackoff + 4*GossipSubHeartbeatInterval + time.Hour)
	gs.heartbeatTicks = 14 // the next heartbeat is a backoff-clearing one
	gs.heartbeat()
	for i := 0; i < gs.params.IDontWantMessageTTL; i++ {
		gs.clearIDontWantCounters()
	}
	gs.score.refreshScores()

	_, inPeers := ps.peers[x]
	_, inTopics := ps.topics[vpT0][x]
	vpAssert(!inPeers && !inTopics, "a departed peer is absent from the outbound queues and from topic membership")
	_, a := gs.peers[x]
	_, b := gs.mesh[vpT0][x]
	_, c := gs.fanout[vpT0][x]
	vpAssert(!a, "a departed peer is absent from the router's peer set")
	vpAssert(!b, "a departed peer is absent from every mesh")
	vpAssert(!c, "a departed peer is absent from every fanout set")
	_, d := gs.gossip[x]
	_, e := gs.control[x]
	_, f := gs.outbound[x]
	_, g := gs.unwanted[x]
	vpAssert(!d && !e && !f && !g, "a departed peer has no pending gossip, control retries, direction or IDONTWANT records")
	_, h := gs.backoff[vpT0][x]
	vpAssert(!h, "the backoff entry of a departed peer is dropped once it has expired")
	_, i1 := gs.peerhave[x]
	_, i2 := gs.iasked[x]
	_, i3 := gs.peerdontwant[x]
	vpAssert(!i1 && !i2 && !i3, "per-heartbeat counters of a departed peer are reset")
	_, j := gs.extensions.peerExtensions[x]
	_, k := gs.extensions.sentExtensions[x]
	vpAssert(!j && !k, "no extension-handshake state is kept for a departed peer")
	_, l := gs.score.peerStats[x]
	vpAssert(!l, "scoring statistics of a departed peer are dropped after the retention period")
	_, ipl := gs.score.peerIPs["1.2.3.4"][x]
	vpAssert(!ipl, "the IP-colocation bookkeeping of a departed peer is dropped with its statistics")
	vpAssert(!w.n.h.cm.IsProtected(x, ""), "no connection-manager protection installed by pubsub survives the peer's departure")
	vpCover(w.mesh[0] && !inboundFirst && lateGraft, "mesh member, late GRAFT on the surviving inbound stream")
	vpCover(inboundFirst && w.proto[0] == 3, "v1.2 peer, inbound closes first")
}
