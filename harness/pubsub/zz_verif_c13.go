//go:build verif

package pubsub

import (
	"time"

	pb "github.com/libp2p/go-libp2p-pubsub/pb"
	"github.com/libp2p/go-libp2p/core/network"
	"github.com/libp2p/go-libp2p/core/peer"
)

// ---- C13: all state attributable to a peer is reclaimed after it disconnects ----------------------------

// teardown: peer x = p0 may own an entry in every per-peer structure; its two stream directions die in a symbolic
// order with an optional late GRAFT arriving on the inbound stream that outlives the outbound one; then the
// retention periods pass (clock advanced, one full heartbeat on a backoff-clearing tick, score refresh).
func vpH_C13_teardown_gs() {
	vpOpt("unwind", 10)
	w := vpNewWorld(vpWorldCfg{P: 2, params: vpSmallParams(), scoring: true})
	gs, ps := w.n.gs, w.n.ps
	x := w.peers[0]
	vpAssume(w.up[0])
	proto := vpProtos[w.proto[0]]
	// more per-peer state: pending gossip / control retries, flood counters, IDONTWANT records
	topic := vpT0
	if vpBool("pending_gossip") {
		gs.gossip[x] = []*pb.ControlIHave{{TopicID: &topic, MessageIDs: []string{"m"}}}
	}
	if vpBool("pending_control") {
		gs.control[x] = &pb.ControlMessage{Prune: []*pb.ControlPrune{{TopicID: &topic}}}
	}
	if vpBool("counters") {
		gs.peerhave[x], gs.iasked[x], gs.peerdontwant[x] = 1, 1, 1
	}
	if vpBool("unwanted") {
		gs.unwanted[x] = map[checksum]int{computeChecksum("m"): gs.params.IDontWantMessageTTL}
	}
	if w.mesh[0] {
		gs.tagTracer.Graft(x, vpT0) // the protection a mesh member carries
	}
	if vpBool("iwant_promise_outstanding") { // x advertised a message, we asked for it, it never came
		gs.gossipTracer.AddPromise(x, []string{"m9"})
	}
	if vpBool("ip_tracked") { // IP colocation bookkeeping of the peer
		if st, ok := gs.score.peerStats[x]; ok {
			st.ips = []string{"1.2.3.4"}
			gs.score.peerIPs["1.2.3.4"] = map[peer.ID]struct{}{x: {}}
		}
	}
	inboundFirst := vpBool("inbound_closes_first")
	lateGraft := vpBool("late_graft_on_surviving_inbound_stream")
	lateExt := vpBool("late_rpc_is_first_rpc")
	closeOutbound := func() {
		w.n.h.net.connected[x] = false
		ps.peerDeadPend[x] = struct{}{}
		ps.handleDeadPeers()
	}
	closeInbound := func() { ps.onClosedIncomingStream(x, proto) }
	late := func() {
		if lateGraft {
			ps.handleIncomingRPC(&RPC{RPC: pb.RPC{Control: vpGraftCtl(vpT0)}, from: x})
		} else if lateExt {
			ps.handleIncomingRPC(&RPC{from: x})
		}
	}
	if inboundFirst {
		closeInbound()
		closeOutbound()
	} else {
		closeOutbound()
		late() // the inbound stream is still open: RPCs keep arriving on it
		closeInbound()
	}
	_ = network.Connected
	// retention: every configured period elapses, the periodic clean-ups run
	vpAdvance(gs.params.PruneBackoff + gs.params.UnsubscribeBackoff + 4*GossipSubHeartbeatInterval + time.Hour)
	gs.heartbeatTicks = 14 // the next heartbeat is a backoff-clearing one
	gs.heartbeat()
	for i := 0; i < gs.params.IDontWantMessageTTL; i++ {
		gs.clearIDontWantCounters()
	}
	gs.score.refreshScores()

	vpAssertGone(w, x)
	vpCover(w.mesh[0] && !inboundFirst && lateGraft, "mesh member, late GRAFT on the surviving inbound stream")
	vpCover(inboundFirst && w.proto[0] == 3, "v1.2 peer, inbound closes first")
}

// vpAssertGone: x occurs in none of the node's per-peer structures.
func vpAssertGone(w *vpWorld, x peer.ID) {
	gs, ps := w.n.gs, w.n.ps
	_, inPeers := ps.peers[x]
	_, inTopics := ps.topics[vpT0][x]
	vpAssert(!inPeers && !inTopics, "a departed peer is absent from the outbound queues and from topic membership")
	_, a := gs.peers[x]
	_, b := gs.mesh[vpT0][x]
	_, c := gs.fanout[vpT0][x]
	vpAssert(!a, "a departed peer is absent from the router's peer set")
	vpAssert(!b, "a departed peer is absent from every mesh")
	vpAssert(!c, "a departed peer is absent from every fanout set")
	_, d := gs.gossip[x]
	_, e := gs.control[x]
	_, f := gs.outbound[x]
	_, g := gs.unwanted[x]
	vpAssert(!d && !e && !f && !g, "a departed peer has no pending gossip, control retries, direction or IDONTWANT records")
	_, h := gs.backoff[vpT0][x]
	vpAssert(!h, "the backoff entry of a departed peer is dropped once it has expired")
	_, i1 := gs.peerhave[x]
	_, i2 := gs.iasked[x]
	_, i3 := gs.peerdontwant[x]
	vpAssert(!i1 && !i2 && !i3, "per-heartbeat counters of a departed peer are reset")
	_, j := gs.extensions.peerExtensions[x]
	_, k := gs.extensions.sentExtensions[x]
	vpAssert(!j && !k, "no extension-handshake state is kept for a departed peer")
	_, l := gs.score.peerStats[x]
	vpAssert(!l, "scoring statistics of a departed peer are dropped after the retention period")
	_, ipl := gs.score.peerIPs["1.2.3.4"][x]
	vpAssert(!ipl, "the IP-colocation bookkeeping of a departed peer is dropped with its statistics")
	vpAssert(!w.n.h.cm.IsProtected(x, ""), "no connection-manager protection installed by pubsub survives the peer's departure")
	if gt := gs.gossipTracer; gt != nil {
		_, pp := gt.peerPromises[x]
		_, pm := gt.promises["m9"][x]
		vpAssert(!pp && !pm, "no IWANT promise of a departed peer is tracked once the follow-up time has passed and a heartbeat has settled it")
	}
}

// stream_churn: the peer's OUTBOUND stream dies while its connection stays up (a transient reset, or a hostile peer
// that keeps resetting our stream) with an ARBITRARY reconnect-backoff history (none, 0..5 earlier attempts, any age and
// delay): the real handleDeadPeers either respawns the writer (fresh OPEN queue registered, router told that the old
// stream closed) or gives up on the peer (maximum attempts reached: no queue registered, router told just the same).
// Never is a CLOSED queue left registered (a later reply to the peer would panic in the event loop), never does the
// router keep a peer the node has no queue for. Afterwards an RPC from the peer on its inbound stream is handled without
// panic, the peer disconnects for good, retention passes, and nothing of it is left.
func vpH_C13_stream_churn() {
	vpOpt("unwind", 10)
	w := vpNewWorld(vpWorldCfg{P: 2, params: vpSmallParams(), scoring: true})
	gs, ps := w.n.gs, w.n.ps
	x := w.peers[0]
	vpAssume(w.up[0])
	proto := vpProtos[w.proto[0]]
	if w.mesh[0] {
		gs.tagTracer.Graft(x, vpT0)
	}
	hasHist, attempts := vpBool("has_backoff_history"), vpInt("earlier_attempts", 0, 5)
	dur, age := vpInt("last_delay_ms", 0, 20000), vpInt("age_of_last_attempt_s", 0, 1200)
	if hasHist {
		ps.deadPeerBackoff.info[x] = &backoffHistory{duration: time.Duration(dur) * time.Millisecond, lastTried: w.now.Add(-time.Duration(age) * time.Second), attempts: attempts}
	}
	qOld := w.q[0]
	// the stream dies, the connection stays
	ps.peerDeadPend[x] = struct{}{}
	ps.handleDeadPeers()
	respawned := vpPendingOrNative(ps, x)
	vpDropPending() // (the respawn goroutine is still sleeping out its backoff delay)
	qNew, registered := ps.peers[x]
	_, inRouter := gs.peers[x]
	_, inMesh := gs.mesh[vpT0][x]
	_, inFan := gs.fanout[vpT0][x]
	vpAssert(qOld.closed, "the queue of the dead stream is closed")
	vpAssert(!inRouter && !inMesh && !inFan, "the router is told that the outbound stream closed, whether or not the writer is respawned")
	if registered {
		vpAssert(qNew != qOld && !qNew.closed, "a queue that stays registered for a still-connected peer is a fresh open one, never the closed one")
		vpAssert(respawned, "a registered queue has a writer being respawned for it")
	}
	expired := age*1000 > int(TimeToLive/time.Millisecond)
	giveUp := hasHist && !expired && attempts >= MaxBackoffAttempts
	vpAssert(registered == !giveUp, "the writer is respawned unless the peer used up its reconnect attempts within the backoff lifetime")
	// the peer keeps talking on its inbound stream: replies must not hit a closed queue
	topic := vpT0
	panicked := vpPanics(func() {
		ps.handleIncomingRPC(&RPC{RPC: pb.RPC{Control: &pb.ControlMessage{
			Ihave: []*pb.ControlIHave{{TopicID: &topic, MessageIDs: []string{"Z1"}}},
			Graft: []*pb.ControlGraft{{TopicID: &topic}}}}, from: x})
	})
	vpAssert(!panicked, "an RPC from a peer whose outbound stream was reset does not crash the event loop")
	// the peer leaves for good
	w.n.h.net.connected[x] = false
	ps.peerDeadPend[x] = struct{}{}
	ps.handleDeadPeers()
	ps.onClosedIncomingStream(x, proto)
	vpAdvance(gs.params.PruneBackoff + gs.params.UnsubscribeBackoff + 4*GossipSubHeartbeatInterval + time.Hour)
	gs.heartbeatTicks = 14
	gs.heartbeat()
	for i := 0; i < gs.params.IDontWantMessageTTL; i++ {
		gs.clearIDontWantCounters()
	}
	gs.score.refreshScores()
	vpAssertGone(w, x)
	vpCover(giveUp && w.mesh[0], "mesh member given up after the maximum number of respawns")
	vpCover(registered && hasHist && attempts == 3, "fourth respawn")
}

// vpPendingOrNative: in the engine, was a goroutine started (the respawn)? Natively the question is answered by the
// registered queue itself (a goroutine cannot be observed), so the assertion that uses it is engine-side only.
func vpPendingOrNative(ps *PubSub, x peer.ID) bool {
	if vpSymbolic() {
		return vpPending() > 0
	}
	_, ok := ps.peers[x]
	return ok
}

// ip_index: the IP-colocation index stays an exact inverse of the per-peer address lists — x is listed under an address
// exactly when that address is in x's own statistics — across ONE real operation from an arbitrary consistent state
// (x connected or retained after a disconnect, tracked under no address / A / B, possibly sharing A with another peer;
// the address its live connection reports now is a solver variable and may differ from the tracked one: a peer that
// comes back from another address, or whose address changes between refreshes): new outbound stream, periodic address
// refresh, stream closed (retain or drop by score), retention expiry. Step-inductive: covers connect / disconnect /
// reconnect histories of any length; at the end the peer leaves for good and is listed nowhere.
func vpH_C13_ip_index() {
	vpOpt("unwind", 8)
	w := vpNewWorld(vpWorldCfg{P: 2, params: vpSmallParams(), scoring: true, noFanout: true})
	sc := w.n.gs.score
	net := w.n.h.net
	x, y := w.peers[0], w.peers[1]
	addrs := []string{"", "1.2.3.4", "5.6.7.8"}
	// arbitrary consistent pre-state for x
	tracked := vpInt("tracked_address", 0, 2)
	connected := vpBool("x_connected")
	retained := vpBool("x_retained_after_disconnect")
	vpAssume(connected == w.up[0])
	st, has := sc.peerStats[x]
	if !connected {
		if retained {
			st = &peerStats{topics: map[string]*topicStats{}, expire: w.now.Add(time.Duration(vpInt("retention_left_s", -10, 10)) * time.Second)}
			sc.peerStats[x] = st
			has = true
		} else {
			delete(sc.peerStats, x)
			has = false
		}
	}
	sc.peerIPs = map[string]map[peer.ID]struct{}{}
	if vpBool("y_shares_address_A") {
		sc.peerIPs[addrs[1]] = map[peer.ID]struct{}{y: {}}
		if sy, ok := sc.peerStats[y]; ok {
			sy.ips = []string{addrs[1]}
		} else {
			sc.peerStats[y] = &peerStats{topics: map[string]*topicStats{}, connected: true, ips: []string{addrs[1]}}
		}
	}
	if has && tracked > 0 {
		st.ips = []string{addrs[tracked]}
		if sc.peerIPs[addrs[tracked]] == nil {
			sc.peerIPs[addrs[tracked]] = map[peer.ID]struct{}{}
		}
		sc.peerIPs[addrs[tracked]][x] = struct{}{}
	} else if has {
		st.ips = nil
	}
	// what the network reports for x now
	now := vpInt("address_reported_now", 0, 2)
	net.ip[x] = addrs[now]
	inv := func(what string) {
		s, ok := sc.peerStats[x]
		for k := 1; k <= 2; k++ {
			_, listed := sc.peerIPs[addrs[k]][x]
			own := false
			if ok {
				for _, ip := range s.ips {
					own = own || ip == addrs[k]
				}
			}
			vpAssert(listed == own, "x is listed under an address in the colocation index exactly when the address is in its own statistics ("+what+")")
		}
	}
	switch vpInt("op", 0, 3) {
	case 0: // (re)connect: a new outbound stream
		net.connected[x] = true
		sc.OnNewOutboundStream(x, GossipSubID_v11)
		s := sc.peerStats[x]
		vpAssert(s != nil && s.connected, "connected")
		for k := 1; k <= 2; k++ {
			_, listed := sc.peerIPs[addrs[k]][x]
			vpAssert(listed == (k == now), "after a new outbound stream x is listed under exactly the address it is connected from now, not under one it used before")
		}
	case 1:
		sc.refreshIPs()
		if connected {
			for k := 1; k <= 2; k++ {
				_, listed := sc.peerIPs[addrs[k]][x]
				vpAssert(listed == (k == now), "after an address refresh a connected peer is listed under exactly its current address")
			}
		}
	case 2:
		sc.OnClosedOutboundStream(x)
	case 3:
		sc.refreshScores()
	}
	inv("after the step")
	// x leaves for good; retention passes
	net.connected[x] = false
	sc.OnClosedOutboundStream(x)
	vpAdvance(sc.params.RetainScore + time.Hour)
	sc.refreshScores()
	_, left := sc.peerStats[x]
	vpAssert(!left, "statistics dropped after retention")
	for k := 1; k <= 2; k++ {
		_, listed := sc.peerIPs[addrs[k]][x]
		vpAssert(!listed, "a departed peer is listed under no address once its statistics are dropped")
	}
	vpCover(!connected && retained && tracked == 1 && now == 2, "retained peer comes back from another address")
	vpCover(connected && tracked == 1 && now == 0, "address lost between refreshes")
}

// gater_stats: the validation-overload gater's per-source statistics are reclaimed too: a peer connects, has messages
// counted (delivered / rejected / ignored / duplicate), its two streams close in a symbolic order, and ONE more verdict
// for a message of the peer may still come out of the validation pipeline - before the first close, between the two, or
// AFTER both (an asynchronous validator that finishes late). Once the retention period has passed and the periodic decay
// has run, the gater holds nothing for the peer, neither by peer ID nor by address.
func vpH_C13_gater_stats() {
	gp := &PeerGaterParams{Threshold: 0.33, GlobalDecay: 0.9, SourceDecay: 0.999, DecayInterval: time.Second, DecayToZero: 0.01,
		RetainStats: time.Hour, Quiet: time.Minute, DuplicateWeight: 0.125, IgnoreWeight: 1, RejectWeight: 16}
	nd := vpNewNode("self", vpNodeCfg{router: "gossipsub", opts: []Option{WithPeerGater(gp)}})
	ps, gs := nd.ps, nd.gs
	pg := gs.gate
	pg.getIP = func(p peer.ID) string {
		if nd.h.net.connected[p] {
			return "9.9.9.9"
		}
		return "<unknown>"
	}
	x := peer.ID("x")
	outbound := vpBool("x_has_outbound_stream") // (a peer may be known from its inbound stream only)
	if outbound {
		nd.vpAddPeer(x, GossipSubID_v11, true)
	} else {
		nd.h.net.connected[x] = true
	}
	m := vpMkMsg("A", "1", vpT0)
	m.ReceivedFrom = x
	verdict := func(k int) {
		switch k {
		case 0:
			ps.tracer.DeliverMessage(m)
		case 1:
			ps.tracer.RejectMessage(m, RejectValidationFailed)
		case 2:
			ps.tracer.RejectMessage(m, RejectValidationIgnored)
		case 3:
			ps.tracer.DuplicateMessage(m)
		}
	}
	verdict(vpInt("first_verdict", 0, 3))
	lateAt := vpInt("late_verdict_arrives", 0, 3) // 0 none, 1 before the streams close, 2 between the two closes, 3 after both
	lateKind := vpInt("late_verdict", 0, 3)
	inboundFirst := vpBool("inbound_closes_first")
	if lateAt == 1 {
		verdict(lateKind)
	}
	closeOut := func() {
		nd.h.net.connected[x] = false
		if outbound {
			ps.peerDeadPend[x] = struct{}{}
			ps.handleDeadPeers()
		}
	}
	closeIn := func() { ps.onClosedIncomingStream(x, GossipSubID_v11) }
	if inboundFirst {
		closeIn()
	} else {
		closeOut()
	}
	if lateAt == 2 {
		verdict(lateKind)
	}
	if inboundFirst {
		closeOut()
	} else {
		closeIn()
	}
	if lateAt == 3 {
		verdict(lateKind)
	}
	vpAdvance(gp.RetainStats + time.Hour)
	pg.decayStats()
	pg.decayStats()
	_, byPeer := pg.peerStats[x]
	_, byAddr := pg.ipStats["9.9.9.9"]
	_, byUnknown := pg.ipStats["<unknown>"]
	vpAssert(!byPeer, "the gater keeps no per-peer statistics entry for a departed peer once retention has passed, also when a verdict for one of its messages arrived after it left")
	vpAssert(!byAddr && !byUnknown, "the gater keeps no per-address statistics for a departed peer once retention has passed")
	vpCover(lateAt == 3 && outbound, "verdict after both streams closed")
	vpCover(lateAt == 0 && !outbound, "inbound-only peer")
}
