//go:build verif

package pubsub

import (
	pb "github.com/libp2p/go-libp2p-pubsub/pb"
	"github.com/libp2p/go-libp2p/core/peer"
)

// ---- C12: no input from remote peers can crash the node or stall its event loop -----------------------------

func vpHostileStr(tag string) *string {
	// nil / "" / known topic / unknown topic / a 40-byte string (sha256 path of the IDONTWANT checksum)
	vals := []string{"", vpT0, "unknown-topic", "0123456789012345678901234567890123456789"}
	k := vpInt(tag, 0, 4)
	if k == 4 {
		return nil
	}
	s := vals[k]
	return &s
}

func vpHostileIDs(tag string) []string {
	vals := []string{"", "A7", "0123456789012345678901234567890123456789"}
	n := vpInt(tag+"_n", 0, 2)
	a, b := vals[vpInt(tag, 0, 2)], vals[vpInt(tag, 0, 2)]
	return []string{a, b}[:n]
}

// handlers_gs: an arbitrary valid gossipsub node receives ONE structurally arbitrary RPC (every optional field nil or
// set, empty / unknown / long topics and IDs, control about unknown topics, any backoff, bogus peer-exchange entries,
// from a known or unknown sender): the real handleIncomingRPC and everything it reaches neither panics nor blocks.
func vpH_C12_handlers_gs() {
	vpOpt("unwind", 8)
	w := vpNewWorld(vpWorldCfg{P: 2, params: vpGossipParams(), scoring: true, direct: true, doPX: true})
	ps, gs := w.n.ps, w.n.gs
	ps.mySubs[vpT0] = map[*Subscription]struct{}{}
	// arbitrary per-heartbeat flood-protection counters of the first peer (small caps so that "exactly at the cap" is inside)
	if c := vpInt("peerhave_pre", 0, 3); c > 0 {
		gs.peerhave["p0"] = c
	}
	if c := vpInt("iasked_pre", 0, 4); c > 0 {
		gs.iasked["p0"] = c
	}
	if c := vpInt("peerdontwant_pre", 0, 3); c > 0 {
		gs.peerdontwant["p0"] = c
	}
	cached := vpMkMsg("A", "7", vpT0)
	cached.ReceivedFrom = "self"
	gs.mcache.Put(cached)
	from := []peer.ID{"p0", "p1", "stranger", ""}[vpInt("sender", 0, 3)]
	rpc := &RPC{from: from}
	if vpBool("has_subscription") {
		so := &pb.RPC_SubOpts{Topicid: vpHostileStr("sub_topic")}
		if vpBool("sub_flag_set") {
			so.Subscribe = vpB(vpBool("sub_flag"))
		}
		// (elements of repeated fields are never nil in an RPC produced by Unmarshal)
		rpc.Subscriptions = []*pb.RPC_SubOpts{so, {}}[:vpInt("n_subs", 1, 2)]
	}
	if vpBool("has_message") {
		m := &pb.Message{Topic: vpHostileStr("msg_topic")}
		if vpBool("msg_from") {
			m.From = []byte("A")
		}
		m.Seqno = vpBytesLen("seqno", vpInt("seqno_len", 0, 9), 9)
		m.Data = vpOpaqueBytes(vpInt("data_len", 0, 2048), 2048)
		if vpBool("msg_sig") {
			m.Signature = []byte("S")
		}
		rpc.Publish = []*pb.Message{m}
	}
	if vpBool("has_control") {
		ctl := &pb.ControlMessage{}
		if vpBool("ihave") {
			ctl.Ihave = []*pb.ControlIHave{{TopicID: vpHostileStr("ihave_topic"), MessageIDs: vpHostileIDs("ihave_ids")}}
		}
		if vpBool("iwant") {
			ctl.Iwant = []*pb.ControlIWant{{MessageIDs: vpHostileIDs("iwant_ids")}}
		}
		if vpBool("graft") {
			ctl.Graft = []*pb.ControlGraft{{TopicID: vpHostileStr("graft_topic")}}
		}
		if vpBool("prune") {
			pr := &pb.ControlPrune{TopicID: vpHostileStr("prune_topic")}
			if vpBool("prune_backoff") {
				pr.Backoff = vpU64([]uint64{0, 1, 1 << 40, ^uint64(0)}[vpInt("backoff_choice", 0, 3)])
			}
			if vpBool("prune_px") {
				// first entry: a signed-record field of every outcome class of the (uninterpreted) envelope check: undecodable,
				// valid record for the advertised peer, valid record naming another peer, valid envelope of ANOTHER record type
				xp := vpPXPeer(0)
				e0 := []*pb.PeerInfo{vpPXInfo(xp, vpEnvGarbage, ""), vpPXInfo(xp, vpEnvPeerRec, xp), vpPXInfo(xp, vpEnvPeerRec, vpPXPeer(1)), vpPXInfo(xp, vpEnvBogus, "")}[vpInt("px_record_class", 0, 3)]
				pr.Peers = []*pb.PeerInfo{e0, {PeerID: []byte("x")}, {}, {PeerID: []byte("p0"), SignedPeerRecord: []byte("bogus")}}[:vpInt("px_n", 1, 4)]
			}
			ctl.Prune = []*pb.ControlPrune{pr}
		}
		if vpBool("idontwant") {
			ctl.Idontwant = []*pb.ControlIDontWant{{MessageIDs: vpHostileIDs("idw_ids")}}
		}
		if vpBool("extensions") {
			ctl.Extensions = &pb.ControlExtensions{}
			if vpBool("ext_partial_set") {
				ctl.Extensions.PartialMessages = vpB(vpBool("ext_partial"))
			}
			if vpBool("ext_test_set") {
				ctl.Extensions.TestExtension = vpB(vpBool("ext_test"))
			}
		}
		rpc.Control = ctl
	}
	// extension payloads, whether or not anybody negotiated the extension
	if vpBool("has_partial") {
		rpc.Partial = &pb.PartialMessagesExtension{TopicID: vpHostileStr("partial_topic")}
		if vpBool("partial_group") {
			rpc.Partial.GroupID = []byte("g")
		}
		if vpBool("partial_meta") {
			rpc.Partial.PartsMetadata = []byte{1}
		}
		if vpBool("partial_body") {
			rpc.Partial.PartialMessage = []byte("x")
		}
	}
	if vpBool("has_test_extension") {
		rpc.TestExtension = &pb.TestExtension{}
	}
	var panicked bool
	blocked := vpBlocks(func() { panicked = vpPanics(func() { ps.handleIncomingRPC(rpc) }) })
	vpAssert(!panicked, "no RPC from a remote peer makes the node panic")
	vpAssert(!blocked, "no RPC from a remote peer blocks the event loop")
	// the node still serves its other peers: their queues are open and the peer maps well-formed
	for i, p := range w.peers {
		if w.up[i] {
			q, ok := ps.peers[p]
			vpAssert(ok && !q.closed, "other peers keep their open outbound queues")
		}
	}
	w.assertInv(w.joined)
	vpCover(!panicked && rpc.Control != nil && len(rpc.Publish) > 0 && len(rpc.Subscriptions) > 0, "RPC with subscriptions, payload and control")
}

// seqno_validator: the built-in sequence-number validator on wrong-length encodings (shared with C20_length).
func vpH_C12_seqno_validator() { vpH_C20_length() }


// subfilter: the same question with a subscription filter installed (allowlist, optionally wrapped by the limit
// filter): an RPC listing up to three subscriptions with arbitrary topics (allowed, not allowed, empty, absent) and the
// optional subscribe flag absent / true / false, repeated topics included.
func vpH_C12_subfilter() {
	vpOpt("unwind", 8)
	var f SubscriptionFilter = NewAllowlistSubscriptionFilter(vpT0, "t1")
	limited := vpBool("limit_filter")
	if limited {
		f = WrapLimitSubscriptionFilter(f, 2)
	}
	nd := vpNewNode("self", vpNodeCfg{router: "floodsub", opts: []Option{WithSubscriptionFilter(f)}})
	ps := nd.ps
	nd.vpAddPeer("p0", FloodSubID, true)
	from := []peer.ID{"p0", "stranger"}[vpInt("sender", 0, 1)]
	topics := []string{vpT0, "t1", "not-allowed", ""}
	n := vpInt("n_subs", 0, 3)
	var subs []*pb.RPC_SubOpts
	for i := 0; i < 3; i++ {
		so := &pb.RPC_SubOpts{}
		k, fl := vpInt("sub_topic", 0, 4), vpInt("sub_flag", 0, 2)
		if k < 4 {
			so.Topicid = &topics[k]
		}
		if fl < 2 {
			so.Subscribe = vpB(fl == 1)
		}
		subs = append(subs, so)
	}
	rpc := &RPC{RPC: pb.RPC{Subscriptions: subs[:n]}, from: from}
	var panicked bool
	blocked := vpBlocks(func() { panicked = vpPanics(func() { ps.handleIncomingRPC(rpc) }) })
	vpAssert(!panicked, "no subscription list from a remote peer makes the node panic, with a subscription filter installed")
	vpAssert(!blocked, "no subscription list from a remote peer blocks the event loop")
	_, bad := ps.topics["not-allowed"]
	_, empty := ps.topics[""]
	vpAssert(!bad && !empty, "topics the filter does not allow never enter the topic table")
	vpCover(n == 3 && !panicked && len(ps.topics) > 0, "three entries, one accepted")
	vpCover(n == 3 && limited && len(ps.topics) == 0, "too many subscriptions for the limit filter")
}

// stream_churn: a hostile peer that stays connected but keeps resetting the stream we open to it, with an arbitrary
// reconnect-backoff history, and then keeps sending RPCs: no closed queue stays registered, no reply panics (shared with C13).
func vpH_C12_stream_churn() { vpH_C13_stream_churn() }
