//go:build verif

package pubsub

import (
	"time"

	pb "github.com/libp2p/go-libp2p-pubsub/pb"
	"github.com/libp2p/go-libp2p/core/peer"
)

// ---- C09: score thresholds gate what a peer may send and receive --------------------------------------
// Thresholds are solver variables accepted by the REAL PeerScoreThresholds.validate (atomic and non-atomic mode);
// scores are solver variables driven through the real peerScore, so every side of every comparison, equality
// included, is inside the query.

func vpThresholdWorld(P int) *vpWorld {
	return vpNewWorld(vpWorldCfg{P: P, params: vpSmallParams(), scoring: true, direct: true, symThresholds: true, doPX: true})
}

// accept: direct peers are always accepted, a non-direct peer below the graylist threshold is ignored entirely,
// otherwise the (absent) gater's answer.
func vpH_C09_accept() {
	w := vpThresholdWorld(2)
	gs := w.n.gs
	i := vpInt("peer", 0, w.P-1)
	st := gs.AcceptFrom(w.peers[i])
	if w.direct[i] {
		vpAssert(st == AcceptAll, "RPCs from direct peers are always accepted")
	} else if w.score[i] < gs.graylistThreshold {
		vpAssert(st == AcceptNone, "a non-direct peer below the graylist threshold is ignored entirely")
	} else {
		vpAssert(st == AcceptAll, "a peer at or above the graylist threshold is accepted (no gater configured)")
	}
	vpCover(!w.direct[i] && w.up[i] && w.score[i] == gs.graylistThreshold && st == AcceptAll, "score exactly at the graylist threshold is accepted")
	vpCover(st == AcceptNone, "graylisted")
}

// rpc: the real handleIncomingRPC honours the accept status: AcceptNone => neither payload nor control is processed.
func vpH_C09_rpc() {
	w := vpThresholdWorld(2)
	gs, ps := w.n.gs, w.n.ps
	i := vpInt("peer", 0, w.P-1)
	vpAssume(w.up[i])
	p := w.peers[i]
	topic := vpT0
	m := &pb.Message{From: []byte("A"), Seqno: []byte("1"), Data: []byte("x"), Topic: &topic}
	rpc := &RPC{RPC: pb.RPC{Publish: []*pb.Message{m}, Control: vpGraftCtl(vpT0)}, from: p}
	// we subscribe so that the payload would be delivered
	ps.mySubs[vpT0] = map[*Subscription]struct{}{}
	ps.handleIncomingRPC(rpc)
	gray := !w.direct[i] && w.score[i] < gs.graylistThreshold
	seen := ps.seenMessage(ps.idGen.ID(&Message{Message: m}))
	if gray {
		vpAssert(!seen, "a graylisted peer's published messages are ignored")
		vpAssert(w.inMeshNow(i) == w.mesh[i], "a graylisted peer's control messages are ignored")
	}
	if !gray {
		// (the statement's "RPCs from direct peers are always accepted" and, without a gater, everybody at or above the
		// graylist threshold: payload enters the pipeline, control reaches the router)
		vpAssert(seen, "the payload of an accepted peer enters the validation pipeline")
		if w.joined && !w.mesh[i] {
			// the GRAFT was looked at: the sender is now a member, or it was refused with a PRUNE
			wire := vpReadWire(w.q[i])
			vpAssert(w.inMeshNow(i) || wire.prune == 1, "the control part of an accepted peer's RPC reaches the router (GRAFT admitted or answered with PRUNE)")
		}
	}
	vpCover(gray && w.joined && !w.mesh[i], "graylisted GRAFT ignored")
	vpCover(!gray && seen, "accepted payload")
	vpCover(!gray && w.joined && !w.mesh[i] && w.inMeshNow(i), "accepted GRAFT")
}

// gater: with the validation-overload gater installed and in an ARBITRARY state (throttle/validate counters, quiet period
// age, per-source statistics: solver variables; its random draw: arbitrary in [0,1)), the router's AcceptFrom yields
// AcceptAll for direct peers, AcceptNone below the graylist threshold and otherwise only AcceptAll or AcceptControl; and
// the real handleIncomingRPC then drops at most the PAYLOAD of the RPC - its control part always reaches the router.
// Engine-only (the gater's random draw has no native realisation).
func vpH_C09_gater() {
	vpOpt("native", 0)
	gp := &PeerGaterParams{Threshold: 0.33, GlobalDecay: 0.9, SourceDecay: 0.999, DecayInterval: time.Second, DecayToZero: 0.01,
		RetainStats: time.Hour, Quiet: time.Minute, DuplicateWeight: 0.125, IgnoreWeight: 1, RejectWeight: 16}
	w := vpNewWorld(vpWorldCfg{P: 2, params: vpSmallParams(), scoring: true, direct: true, noFanout: true, opts: []Option{WithPeerGater(gp)}})
	gs, ps := w.n.gs, w.n.ps
	pg := gs.gate
	vpAssert(pg != nil, "gater installed")
	i := vpInt("peer", 0, w.P-1)
	vpAssume(w.up[i])
	p := w.peers[i]
	pg.lastThrottle = w.now.Add(-time.Duration(vpInt("since_last_throttle", 0, 1<<37)))
	pg.throttle, pg.validate = vpFloat("gater_throttle"), vpFloat("gater_validate")
	st := &peerGaterStats{deliver: vpFloat("src_deliver"), duplicate: vpFloat("src_duplicate"), ignore: vpFloat("src_ignore"), reject: vpFloat("src_reject")}
	vpAssume(pg.throttle >= 0 && pg.throttle < 1e9 && pg.validate >= 0 && pg.validate < 1e9)
	vpAssume(st.deliver >= 0 && st.deliver < 1e9 && st.duplicate >= 0 && st.duplicate < 1e9 && st.ignore >= 0 && st.ignore < 1e9 && st.reject >= 0 && st.reject < 1e9)
	if vpBool("source_has_stats") {
		pg.peerStats[p] = st
	}
	topic := vpT0
	m := &pb.Message{From: []byte("A"), Seqno: []byte("1"), Data: []byte("x"), Topic: &topic}
	rpc := &RPC{RPC: pb.RPC{Publish: []*pb.Message{m}, Control: vpGraftCtl(vpT0)}, from: p}
	ps.mySubs[vpT0] = map[*Subscription]struct{}{}
	ps.handleIncomingRPC(rpc)
	gray := !w.direct[i] && w.score[i] < gs.graylistThreshold
	seen := ps.seenMessage(ps.idGen.ID(&Message{Message: m}))
	wire := vpReadWire(w.q[i])
	looked := !(w.joined && !w.mesh[i]) || w.inMeshNow(i) || wire.prune == 1
	if gray {
		vpAssert(!seen && w.inMeshNow(i) == w.mesh[i] && wire.prune == 0, "a graylisted peer is ignored entirely, gater or not")
	} else {
		vpAssert(looked, "the gater never suppresses control traffic: the GRAFT of a peer at or above the graylist threshold reaches the router whatever the gater decides")
		if w.direct[i] {
			vpAssert(seen, "RPCs from direct peers are always accepted in full, gater or not")
		}
		quiet := w.now.Sub(pg.lastThrottle) > gp.Quiet
		if quiet || pg.throttle == 0 {
			vpAssert(seen, "outside a throttling episode the gater accepts the payload")
		}
	}
	vpCover(!gray && !seen && w.joined && !w.mesh[i] && w.inMeshNow(i), "payload suppressed by the gater, GRAFT of the same RPC admitted")
	vpCover(!gray && seen && !w.direct[i] && pg.throttle > 0, "payload accepted during a throttling episode")
}

// gossip: below the gossip threshold IHAVE is ignored and IWANT unanswered.
func vpH_C09_gossip() {
	w := vpThresholdWorld(2)
	gs := w.n.gs
	i := vpInt("peer", 0, w.P-1)
	vpAssume(w.up[i])
	p := w.peers[i]
	// one cached message the peer may ask for
	cached := vpMkMsg("A", "7", vpT0)
	cached.ReceivedFrom = "self"
	gs.mcache.Put(cached)
	below := w.score[i] < gs.gossipThreshold
	topic := vpT0
	ih := &pb.ControlMessage{Ihave: []*pb.ControlIHave{{TopicID: &topic, MessageIDs: []string{"B9"}}}}
	iwant := gs.handleIHave(p, ih)
	if below {
		vpAssert(len(iwant) == 0 && gs.peerhave[p] == 0, "IHAVE from a peer below the gossip threshold is ignored (no IWANT, no counters)")
	} else if w.joined {
		vpAssert(len(iwant) == 1, "IHAVE for an unseen message of a joined topic from a peer at/above the gossip threshold is followed by an IWANT")
	}
	iw := &pb.ControlMessage{Iwant: []*pb.ControlIWant{{MessageIDs: []string{"A7"}}}}
	msgs := gs.handleIWant(p, iw)
	if below {
		vpAssert(len(msgs) == 0, "IWANT from a peer below the gossip threshold goes unanswered")
	} else {
		vpAssert(len(msgs) == 1 && msgs[0] == cached.Message, "IWANT for a cached message from a peer at/above the gossip threshold is served the cached message")
	}
	vpCover(w.score[i] == gs.gossipThreshold && len(msgs) == 1, "score exactly at the gossip threshold is served")
	vpCover(below, "below the gossip threshold")
}

// emit: IHAVE is emitted only to non-mesh, non-direct, mesh-capable topic peers at/above the gossip threshold.
func vpH_C09_emit() {
	w := vpThresholdWorld(3)
	gs := w.n.gs
	vpAssume(w.joined)
	m := vpMkMsg("A", "7", vpT0)
	m.ReceivedFrom = "self"
	gs.mcache.Put(m)
	gs.emitGossip(vpT0, gs.mesh[vpT0])
	gs.flush()
	cands, got := 0, 0
	for i := range w.peers {
		wire := vpReadWire(w.q[i])
		ok := w.inTopic[i] && w.capable(i) && !w.mesh[i] && !w.direct[i] && w.score[i] >= gs.gossipThreshold
		if ok {
			cands++
		}
		if wire.ihave > 0 {
			got++
			vpAssert(ok, "IHAVE is sent only to non-mesh, non-direct, mesh-capable topic peers at or above the gossip threshold")
			vpAssert(wire.ihaveIDs <= gs.params.MaxIHaveLength*wire.ihave, "at most MaxIHaveLength IDs per advertisement")
		}
	}
	want := cands
	if want > gs.params.Dlazy {
		want = gs.params.Dlazy
	}
	vpAssert(got == want, "gossip goes to min(candidates, Dlazy) peers (GossipFactor 0 in this harness)")
	vpCover(cands == 3, "more candidates than Dlazy")
}

// px: peer-exchange records of a PRUNE are followed only from a pruner at/above the accept-PX threshold, for peers
// we are not connected to, at most PrunePeers of them (records without a signed envelope; envelope validity is crypto).
func vpH_C09_px() {
	w := vpThresholdWorld(2)
	gs := w.n.gs
	i := vpInt("peer", 0, w.P-1)
	vpAssume(w.up[i] && w.joined)
	p := w.peers[i]
	topic := vpT0
	other := w.peers[1-i]
	px := []*pb.PeerInfo{{PeerID: []byte(other)}, {PeerID: []byte("x1")}, {PeerID: []byte("x2")}}
	gs.handlePrune(p, &pb.ControlMessage{Prune: []*pb.ControlPrune{{TopicID: &topic, Peers: px}}})
	n := len(gs.connect)
	if w.score[i] < gs.acceptPXThreshold {
		vpAssert(n == 0, "peer exchange from a pruner below the accept-PX threshold is not followed")
	} else {
		vpAssert(n <= gs.params.PrunePeers, "at most PrunePeers exchanged peers are followed")
		for n > 0 {
			ci := <-gs.connect
			n--
			_, connected := gs.peers[ci.p]
			vpAssert(!connected, "already connected peers are not dialled again")
		}
	}
	vpCover(w.score[i] == gs.acceptPXThreshold && len(gs.connect) == 0 && w.score[i] > 0, "score exactly at the accept-PX threshold follows PX")
}

var _ = peer.ID("")

// px_records: a peer-exchange entry is followed only when it carries no record at all or a VALID signed record that
// names the advertised peer; an undecodable envelope, a valid envelope of another record type and a valid peer record
// naming a DIFFERENT peer (a replayed record) are all skipped — and only the matching record is handed to the connector.
// The outcome class of each of two entries is a solver variable (crypto uninterpreted, see zz_verif_px.go).
func vpH_C09_px_records() {
	w := vpNewWorld(vpWorldCfg{P: 1, params: vpSmallParams(), scoring: true, symThresholds: true, doPX: true, noFanout: true})
	gs := w.n.gs
	vpAssume(w.up[0] && w.joined)
	p := w.peers[0]
	topic := vpT0
	x := []peer.ID{vpPXPeer(0), vpPXPeer(1)}
	other := vpPXPeer(2)
	// class per entry: 0 no record, 1 garbage, 2 valid record naming the advertised peer, 3 valid record naming another
	// peer, 4 valid envelope of another record type
	var cls [2]int
	var px []*pb.PeerInfo
	for k := 0; k < 2; k++ {
		cls[k] = vpInt("px_record_class", 0, 4)
		cands := []*pb.PeerInfo{vpPXInfo(x[k], 0, ""), vpPXInfo(x[k], vpEnvGarbage, ""), vpPXInfo(x[k], vpEnvPeerRec, x[k]), vpPXInfo(x[k], vpEnvPeerRec, other), vpPXInfo(x[k], vpEnvBogus, "")}
		px = append(px, cands[cls[k]])
	}
	gs.handlePrune(p, &pb.ControlMessage{Prune: []*pb.ControlPrune{{TopicID: &topic, Peers: px}}})
	var got [2]int
	var withRec [2]bool
	n := len(gs.connect)
	for n > 0 {
		ci := <-gs.connect
		n--
		hit := false
		for k := 0; k < 2; k++ {
			if ci.p == x[k] {
				got[k]++
				withRec[k] = ci.spr != nil
				hit = true
			}
		}
		vpAssert(hit, "only advertised peers are dialled")
	}
	accept := w.score[0] >= gs.acceptPXThreshold
	for k := 0; k < 2; k++ {
		follow := accept && (cls[k] == 0 || cls[k] == 2)
		if follow {
			vpAssert(got[k] == 1, "an entry without record, or with a valid record naming the advertised peer, is followed once when the pruner meets the accept-PX threshold")
			vpAssert(withRec[k] == (cls[k] == 2), "the connector is handed the signed record exactly when a valid matching one was supplied")
		} else {
			vpAssert(got[k] == 0, "entries from a pruner below the accept-PX threshold, and entries whose record is undecodable, of another type or names another peer, are not followed")
		}
	}
	vpCover(accept && cls[0] == 3 && cls[1] == 2, "replayed record skipped, matching record followed")
	vpCover(accept && cls[0] == 4 && cls[1] == 0, "record of another type skipped, bare entry followed")
}

// negative_graft: a GRAFT from a negatively scored (or direct / backed-off) peer is refused with a PRUNE that carries no
// peer exchange, and never admitted (the admission harness of C07, run with peer exchange enabled).
func vpH_C09_negative_graft() { vpH_C07_handleGraft() }

// negative_join / negative_heartbeat: the other two graft sites — Join (fresh selection AND promotion of an existing
// fanout set, whose members need only have met the publish threshold) and the heartbeat — never graft a negatively
// scored peer, and the heartbeat prunes one (shared with C07).
func vpH_C09_negative_join() { vpH_C07_join() }

// (heartbeat side, shared with C07: the refill of an under-subscribed mesh, and the outbound-quota refill of a mesh that is
// within bounds, never graft a negatively scored peer; a negatively scored member is pruned, without peer exchange)
func vpH_C09_negative_heartbeat()     { vpH_C07_heartbeat_a() }
func vpH_C09_negative_heartbeat_out() { vpH_C07_heartbeat_out() }
