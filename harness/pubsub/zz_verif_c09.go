//go:build verif

package pubsub

import (
	pb "github.com/libp2p/go-libp2p-pubsub/pb"
	"github.com/libp2p/go-libp2p/core/peer"
)

// ---- C09: score thresholds gate what a peer may send and receive --------------------------------------
// Thresholds are solver variables accepted by the REAL PeerScoreThresholds.validate (atomic and non-atomic mode);
// scores are solver variables driven through the real peerScore, so every side of every comparison, equality
// included, is inside the query.

func vpThresholdWorld(P int) *vpWorld {
	return vpNewWorld(vpWorldCfg{P: P, params: vpSmallParams(), scoring: true, direct: true, symThresholds: true, doPX: true})
}

// accept: direct peers are always accepted, a non-direct peer below the graylist threshold is ignored entirely,
// otherwise the (absent) gater's answer.
func vpH_C09_accept() {
	w := vpThresholdWorld(2)
	gs := w.n.gs
	i := vpInt("peer", 0, w.P-1)
	st := gs.AcceptFrom(w.peers[i])
	if w.direct[i] {
		vpAssert(st == AcceptAll, "RPCs from direct peers are always accepted")
	} else if w.score[i] < gs.graylistThreshold {
		vpAssert(st == AcceptNone, "a non-direct peer below the graylist threshold is ignored entirely")
	} else {
		vpAssert(st == AcceptAll, "a peer at or above the graylist threshold is accepted (no gater configured)")
	}
	vpCover(!w.direct[i] && w.up[i] && w.score[i] == gs.graylistThreshold && st == AcceptAll, "score exactly at the graylist threshold is accepted")
	vpCover(st == AcceptNone, "graylisted")
}

// rpc: the real handleIncomingRPC honours the accept status: AcceptNone => neither payload nor control is processed.
func vpH_C09_rpc() {
	w := vpThresholdWorld(2)
	gs, ps := w.n.gs, w.n.ps
	i := vpInt("peer", 0, w.P-1)
	vpAssume(w.up[i])
	p := w.peers[i]
	topic := vpT0
	m := &pb.Message{From: []byte("A"), Seqno: []byte("1"), Data: []byte("x"), Topic: &topic}
	rpc := &RPC{RPC: pb.RPC{Publish: []*pb.Message{m}, Control: vpGraftCtl(vpT0)}, from: p}
	// we subscribe so that the payload would be delivered
	ps.mySubs[vpT0] = map[*Subscription]struct{}{}
	ps.handleIncomingRPC(rpc)
	gray := !w.direct[i] && w.score[i] < gs.graylistThreshold
	seen := ps.seenMessage(ps.idGen.ID(&Message{Message: m}))
	if gray {
		vpAssert(!seen, "a graylisted peer's published messages are ignored")
		vpAssert(w.inMeshNow(i) == w.mesh[i], "a graylisted peer's control messages are ignored")
	}
	vpCover(gray && w.joined && !w.mesh[i], "graylisted GRAFT ignored")
	vpCover(!gray && seen, "accepted payload")
}

// gossip: below the gossip threshold IHAVE is ignored and IWANT unanswered.
func vpH_C09_gossip() {
	w := vpThresholdWorld(2)
	gs := w.n.gs
	i := vpInt("peer", 0, w.P-1)
	vpAssume(w.up[i])
	p := w.peers[i]
	// one cached message the peer may ask for
	cached := vpMkMsg("A", "7", vpT0)
	cached.ReceivedFrom = "self"
	gs.mcache.Put(cached)
	below := w.score[i] < gs.gossipThreshold
	topic := vpT0
	ih := &pb.ControlMessage{Ihave: []*pb.ControlIHave{{TopicID: &topic, MessageIDs: []string{"B9"}}}}
	iwant := gs.handleIHave(p, ih)
	if below {
		vpAssert(len(iwant) == 0 && gs.peerhave[p] == 0, "IHAVE from a peer below the gossip threshold is ignored (no IWANT, no counters)")
	} else if w.joined {
		vpAssert(len(iwant) == 1, "IHAVE for an unseen message of a joined topic from a peer at/above the gossip threshold is followed by an IWANT")
	}
	iw := &pb.ControlMessage{Iwant: []*pb.ControlIWant{{MessageIDs: []string{"A7"}}}}
	msgs := gs.handleIWant(p, iw)
	if below {
		vpAssert(len(msgs) == 0, "IWANT from a peer below the gossip threshold goes unanswered")
	} else {
		vpAssert(len(msgs) == 1 && msgs[0] == cached.Message, "IWANT for a cached message from a peer at/above the gossip threshold is served the cached message")
	}
	vpCover(w.score[i] == gs.gossipThreshold && len(msgs) == 1, "score exactly at the gossip threshold is served")
	vpCover(below, "below the gossip threshold")
}

// emit: IHAVE is emitted only to non-mesh, non-direct, mesh-capable topic peers at/above the gossip threshold.
func vpH_C09_emit() {
	w := vpThresholdWorld(3)
	gs := w.n.gs
	vpAssume(w.joined)
	m := vpMkMsg("A", "7", vpT0)
	m.ReceivedFrom = "self"
	gs.mcache.Put(m)
	gs.emitGossip(vpT0, gs.mesh[vpT0])
	gs.flush()
	cands, got := 0, 0
	for i := range w.peers {
		wire := vpReadWire(w.q[i])
		ok := w.inTopic[i] && w.capable(i) && !w.mesh[i] && !w.direct[i] && w.score[i] >= gs.gossipThreshold
		if ok {
			cands++
		}
		if wire.ihave > 0 {
			got++
			vpAssert(ok, "IHAVE is sent only to non-mesh, non-direct, mesh-capable topic peers at or above the gossip threshold")
			vpAssert(wire.ihaveIDs <= gs.params.MaxIHaveLength*wire.ihave, "at most MaxIHaveLength IDs per advertisement")
		}
	}
	want := cands
	if want > gs.params.Dlazy {
		want = gs.params.Dlazy
	}
	vpAssert(got == want, "gossip goes to min(candidates, Dlazy) peers (GossipFactor 0 in this harness)")
	vpCover(cands == 3, "more candidates than Dlazy")
}

// px: peer-exchange records of a PRUNE are followed only from a pruner at/above the accept-PX threshold, for peers
// we are not connected to, at most PrunePeers of them (records without a signed envelope; envelope validity is crypto).
func vpH_C09_px() {
	w := vpThresholdWorld(2)
	gs := w.n.gs
	i := vpInt("peer", 0, w.P-1)
	vpAssume(w.up[i] && w.joined)
	p := w.peers[i]
	topic := vpT0
	other := w.peers[1-i]
	px := []*pb.PeerInfo{{PeerID: []byte(other)}, {PeerID: []byte("x1")}, {PeerID: []byte("x2")}}
	gs.handlePrune(p, &pb.ControlMessage{Prune: []*pb.ControlPrune{{TopicID: &topic, Peers: px}}})
	n := len(gs.connect)
	if w.score[i] < gs.acceptPXThreshold {
		vpAssert(n == 0, "peer exchange from a pruner below the accept-PX threshold is not followed")
	} else {
		vpAssert(n <= gs.params.PrunePeers, "at most PrunePeers exchanged peers are followed")
		for n > 0 {
			ci := <-gs.connect
			n--
			_, connected := gs.peers[ci.p]
			vpAssert(!connected, "already connected peers are not dialled again")
		}
	}
	vpCover(w.score[i] == gs.acceptPXThreshold && len(gs.connect) == 0 && w.score[i] > 0, "score exactly at the accept-PX threshold follows PX")
}

var _ = peer.ID("")

// negative_graft: a GRAFT from a negatively scored (or direct / backed-off) peer is refused with a PRUNE that carries no
// peer exchange, and never admitted (the admission harness of C07, run with peer exchange enabled).
func vpH_C09_negative_graft() { vpH_C07_handleGraft() }
