//go:build verif

package pubsub

import (
	pb "github.com/libp2p/go-libp2p-pubsub/pb"
	"github.com/libp2p/go-libp2p/core/peer"
)

// ---- C19: the event trace is a faithful account ---------------------------------------------------

// joinleave: under every router a Join records exactly one JOIN and a Leave exactly one LEAVE for the
// topic, so JOIN/LEAVE alternate per topic.
func vpH_C19_joinleave() {
	for _, router := range []string{"gossipsub", "floodsub", "randomsub"} {
		n := vpNewNode("self", vpNodeCfg{router: router, tracer: true})
		k := len(n.tr.evts)
		n.ps.rt.Join("t0")
		vpAssert(len(n.tr.evts) == k+1 && n.tr.evts[k].typ == pb.TraceEvent_JOIN && n.tr.evts[k].topic == "t0", "Join records exactly one JOIN event for the topic ("+router+")")
		k = len(n.tr.evts)
		n.ps.rt.Leave("t0")
		joins, leaves := 0, 0
		for _, e := range n.tr.evts[k:] {
			if e.typ == pb.TraceEvent_JOIN {
				joins++
			}
			if e.typ == pb.TraceEvent_LEAVE && e.topic == "t0" {
				leaves++
			}
		}
		vpAssert(joins == 0 && leaves == 1, "Leave records exactly one LEAVE event and no JOIN ("+router+")")
	}
	vpCover(true, "ran")
}

// interest_step: JOIN / LEAVE in the trace match the ACTUAL joins and leaves under every router: from an arbitrary
// interest state (0..2 subscriptions, 0..2 relay references) ONE real handler runs (subscribe, cancel, relay, relay
// cancel): exactly one JOIN is traced when interest in the topic begins, exactly one LEAVE when it ends, nothing
// otherwise - so JOIN and LEAVE alternate per topic over histories of any length, also for a relay taken while
// subscribed or a subscription taken while relaying.
func vpInterestStep(router string) {
	nd := vpNewNode("self", vpNodeCfg{router: router, tracer: true})
	ps := nd.ps
	nSubs, nRel := vpInt("subs", 0, 2), vpInt("relays", 0, 2)
	t := &Topic{p: ps, topic: vpT0, evtHandlers: map[*TopicEventHandler]struct{}{}}
	ps.myTopics[vpT0] = t
	var subs []*Subscription
	for i := 0; i < 2; i++ {
		s := &Subscription{topic: vpT0, ch: make(chan *Message, 3), ctx: ps.ctx}
		subs = append(subs, s)
		if i < nSubs {
			if ps.mySubs[vpT0] == nil {
				ps.mySubs[vpT0] = map[*Subscription]struct{}{}
			}
			ps.mySubs[vpT0][s] = struct{}{}
		}
	}
	if nRel > 0 {
		ps.myRelays[vpT0] = nRel
	}
	in0 := nSubs > 0 || nRel > 0
	if in0 {
		ps.rt.Join(vpT0) // (the router has been told, as the handlers do on the first reference)
	}
	nd.tr.evts = nil
	subs2, rel2 := nSubs, nRel
	switch vpInt("op", 0, 3) {
	case 0:
		ns := &Subscription{topic: vpT0, ch: make(chan *Message, 3), ctx: ps.ctx}
		ps.handleAddSubscription(&addSubReq{sub: ns, resp: make(chan *Subscription, 1)})
		subs2++
	case 1:
		vpAssume(nSubs > 0)
		ps.handleRemoveSubscription(subs[0])
		subs2--
	case 2:
		ps.handleAddRelay(&addRelayReq{topic: vpT0, resp: make(chan RelayCancelFunc, 1)})
		rel2++
	case 3:
		vpAssume(nRel > 0)
		ps.handleRemoveRelay(vpT0)
		rel2--
	}
	in1 := subs2 > 0 || rel2 > 0
	joins, leaves := 0, 0
	for _, e := range nd.tr.evts {
		if e.typ == pb.TraceEvent_JOIN && e.topic == vpT0 {
			joins++
		}
		if e.typ == pb.TraceEvent_LEAVE && e.topic == vpT0 {
			leaves++
		}
	}
	wantJ, wantL := 0, 0
	if !in0 && in1 {
		wantJ = 1
	}
	if in0 && !in1 {
		wantL = 1
	}
	vpAssert(joins == wantJ, "exactly one JOIN is traced when interest in a topic begins and none otherwise ("+router+")")
	vpAssert(leaves == wantL, "exactly one LEAVE is traced when interest in a topic ends and none otherwise ("+router+")")
	vpCover(nSubs == 1 && nRel == 0 && rel2 == 1, "relay taken while subscribed")
	vpCover(nSubs == 0 && nRel == 1 && subs2 == 1, "subscription taken while relaying")
	vpCover(in0 && !in1, "last reference dropped")
}
func vpH_C19_interest_step_gs() { vpInterestStep("gossipsub") }
func vpH_C19_interest_step_fs() { vpInterestStep("floodsub") }
func vpH_C19_interest_step_rs() { vpInterestStep("randomsub") }

// mesh_rebuild: from a state in which the replayed trace equals the router state, ONE real gossipsub handler runs with
// the recording tracer attached; applying the recorded stream-opened/closed, GRAFT, PRUNE, JOIN and LEAVE events as
// set operations reproduces the router's peer set and the topic's mesh.
func vpMeshRebuild(handler, P int) {
	vpOpt("unwind", 10)
	w := vpNewWorld(vpWorldCfg{P: P, params: vpSmallParams(), scoring: true, tracer: true, noFanout: true})
	gs, ps := w.n.gs, w.n.ps
	// ghost = router state before the step
	gPeers := map[peer.ID]bool{}
	gMesh := map[peer.ID]bool{}
	gJoined := w.joined
	for i, p := range w.peers {
		gPeers[p] = w.up[i]
		gMesh[p] = w.mesh[i]
	}
	i := vpInt("peer", 0, w.P-1)
	p := w.peers[i]
	switch handler { // (one harness per handler: merging six different handlers in one run multiplies the formula)
	case 0:
		vpAssume(w.up[i])
		gs.handleGraft(p, vpGraftCtl(vpT0))
	case 1:
		topic := vpT0
		gs.handlePrune(p, &pb.ControlMessage{Prune: []*pb.ControlPrune{{TopicID: &topic}}})
	case 2:
		gs.Join(vpT0)
	case 3:
		gs.Leave(vpT0)
	case 4:
		gs.heartbeat()
	case 5:
		vpAssume(w.up[i])
		w.n.h.net.connected[p] = false
		ps.peerDeadPend[p] = struct{}{}
		ps.handleDeadPeers()
	}
	joins, leaves := 0, 0
	for _, ev := range w.n.tr.evts {
		switch ev.typ {
		case pb.TraceEvent_ON_NEW_OUTBOUND_STREAM:
			gPeers[ev.peer] = true
		case pb.TraceEvent_ON_CLOSED_OUTBOUND_STREAM:
			gPeers[ev.peer] = false
			gMesh[ev.peer] = false
		case pb.TraceEvent_JOIN:
			if ev.topic == vpT0 {
				gJoined = true
				joins++
			}
		case pb.TraceEvent_LEAVE:
			if ev.topic == vpT0 {
				gJoined = false
				leaves++
				for _, q := range w.peers {
					gMesh[q] = false
				}
			}
		case pb.TraceEvent_GRAFT:
			if ev.topic == vpT0 {
				gMesh[ev.peer] = true
			}
		case pb.TraceEvent_PRUNE:
			if ev.topic == vpT0 {
				gMesh[ev.peer] = false
			}
		}
	}
	_, joinedNow := gs.mesh[vpT0]
	vpAssert(gJoined == joinedNow && joins+leaves <= 1, "JOIN and LEAVE events match the actual joins and leaves")
	for j, q := range w.peers {
		_, inPeers := gs.peers[q]
		vpAssert(gPeers[q] == inPeers, "replaying the stream-opened/closed events rebuilds the router's peer set")
		vpAssert(gMesh[q] == w.inMeshNow(j), "replaying GRAFT, PRUNE, JOIN, LEAVE and stream events rebuilds the topic's mesh")
	}
	if handler == 0 || handler == 2 || handler == 4 {
		vpCover(w.inMeshNow(i) && !w.mesh[i], "a peer entered the mesh")
	}
	if handler == 1 || handler == 3 || handler == 5 {
		vpCover(!w.inMeshNow(i) && w.mesh[i], "a peer left the mesh")
	}
}

func vpH_C19_rebuild_graft()     { vpMeshRebuild(0, 4) } // (P=4 so that "mesh already at Dhi=3" is inside)
func vpH_C19_rebuild_prune()     { vpMeshRebuild(1, 3) }
func vpH_C19_rebuild_join()      { vpMeshRebuild(2, 3) }
func vpH_C19_rebuild_leave()     { vpMeshRebuild(3, 3) }
func vpH_C19_rebuild_heartbeat() { vpMeshRebuild(4, 2) }
func vpH_C19_rebuild_peerdown()  { vpMeshRebuild(5, 3) }

// deliver_publish: every message accepted for delivery has exactly one DELIVER_MESSAGE event, every local publication
// attempt exactly one PUBLISH_MESSAGE event.
func vpH_C19_deliver_publish() {
	for _, router := range []string{"gossipsub", "floodsub", "randomsub"} {
		n := vpNewNode("self", vpNodeCfg{router: router, tracer: true})
		m := vpMkMsg("self", "1", vpT0)
		m.ReceivedFrom = "self"
		err := n.ps.val.ValidateLocal(m)
		vpAssert(err == nil && n.tr.count(pb.TraceEvent_PUBLISH_MESSAGE) == 1, "a local publication attempt has exactly one PUBLISH_MESSAGE event ("+router+")")
		n.ps.publishMessage(m)
		vpAssert(n.tr.count(pb.TraceEvent_DELIVER_MESSAGE) == 1, "an accepted message has exactly one DELIVER_MESSAGE event ("+router+")")
		// a second publication attempt of the same ID is a duplicate: no second DELIVER
		m2 := vpMkMsg("self", "1", vpT0)
		m2.ReceivedFrom = "self"
		err2 := n.ps.val.ValidateLocal(m2)
		_, dupe := err2.(dupeErr)
		vpAssert(dupe && n.tr.count(pb.TraceEvent_PUBLISH_MESSAGE) == 2 && n.tr.count(pb.TraceEvent_DELIVER_MESSAGE) == 1, "no message has more than one DELIVER_MESSAGE event ("+router+")")
	}
	vpCover(true, "ran")
}

// send_drop: every RPC accepted by a peer's outbound queue has a SEND_RPC event, every RPC it refuses a DROP_RPC event
// (announce, the gossipsub send path, floodsub and randomsub publish), queue room symbolic.
func vpH_C19_send_drop() {
	for _, router := range []string{"gossipsub", "floodsub", "randomsub"} {
		n := vpNewNode("self", vpNodeCfg{router: router, tracer: true, queue: 1})
		proto := FloodSubID
		if router == "gossipsub" {
			proto = GossipSubID_v11
		} else if router == "randomsub" {
			proto = RandomSubID
		}
		q := n.vpAddPeer("p0", proto, true)
		n.ps.topics[vpT0] = map[peer.ID]peerTopicState{"p0": {}}
		if n.gs != nil {
			n.gs.mesh[vpT0] = map[peer.ID]struct{}{"p0": {}}
		}
		full := vpBool("queue_full")
		if full {
			q.Push(&RPC{}, false)
		}
		n.tr.evts = nil
		site := vpInt("site", 0, 1)
		if site == 0 {
			n.ps.announce(vpT0, true)
		} else {
			m := vpMkMsg("A", "1", vpT0)
			m.ReceivedFrom = "self"
			n.ps.rt.Publish(m)
		}
		sends, drops := n.tr.countPeer(pb.TraceEvent_SEND_RPC, "p0"), n.tr.countPeer(pb.TraceEvent_DROP_RPC, "p0")
		if full {
			vpAssert(sends == 0 && drops == 1, "an RPC refused by a full outbound queue has exactly one DROP_RPC event ("+router+")")
		} else {
			vpAssert(sends == 1 && drops == 0, "an RPC accepted by the outbound queue has exactly one SEND_RPC event ("+router+")")
		}
		vpDropPending() // (the announce retry goroutine is not part of this check)
	}
	vpCover(true, "ran")
}

// batch: messages published as a batch (the processLoop's sendMessageBatch case -> publishMessageBatch): each has exactly
// one DELIVER_MESSAGE event, reaches the local subscription once and is queued to the topic peer once.
func vpH_C19_deliver_batch() {
	vpOpt("unwind", 24)
	params := vpSmallParams()
	n := vpNewNode("self", vpNodeCfg{router: "gossipsub", params: &params, tracer: true})
	ps := n.ps
	sub := &Subscription{topic: vpT0, ch: make(chan *Message, 4), ctx: ps.ctx}
	ps.handleAddSubscription(&addSubReq{sub: sub, resp: make(chan *Subscription, 1)})
	q := n.vpAddPeer("p0", GossipSubID_v11, true)
	ps.handleIncomingRPC(vpSubRPC("p0", vpT0, true))
	n.gs.mesh[vpT0]["p0"] = struct{}{}
	vpDrain(q)
	k := vpInt("batch_size", 1, 2)
	ms := []*Message{vpMkMsg("self", "1", vpT0), vpMkMsg("self", "2", vpT0)}
	for _, m := range ms {
		m.ReceivedFrom = "self"
		m.Local = true
	}
	for i := 0; i < 2; i++ {
		if i < k {
			vpAssert(ps.val.ValidateLocal(ms[i]) == nil, "a valid local publication is accepted")
		}
	}
	n.tr.evts = nil
	vpOffer(ps.sendMessageBatch, messageBatchAndPublishOptions{messages: ms[:k], opts: &BatchPublishOptions{Strategy: &RoundRobinMessageIDScheduler{}}})
	n.loop()
	vpAssert(n.tr.count(pb.TraceEvent_DELIVER_MESSAGE) == k, "every message of a published batch has exactly one DELIVER_MESSAGE event")
	vpAssert(len(sub.ch) == k, "every message of the batch reaches the local subscription once")
	sent := 0
	for _, r := range vpDrain(q) {
		sent += len(r.Publish)
	}
	vpAssert(sent == k, "every message of the batch is queued to the mesh peer once")
	vpCover(k == 2, "two messages")
	n.shutdown()
}

// batch_reuse: the SAME MessageBatch object is refilled after PublishBatch has returned but before the event loop has
// consumed the hand-over (the hand-over channel buffers one batch), then published again: every message of either
// publication has exactly one DELIVER_MESSAGE event, reaches the local subscription once and is queued to the mesh peer
// once — the slice handed to the event loop must not share storage with the batch being refilled.
func vpH_C19_batch_reuse_early() { vpBatchReuse(true) }
func vpH_C19_batch_reuse_late()  { vpBatchReuse(false) }

func vpBatchReuse(refillEarly bool) {
	vpOpt("unwind", 24)
	params := vpSmallParams()
	n := vpNewNode("self", vpNodeCfg{router: "gossipsub", params: &params, tracer: true})
	ps := n.ps
	sub := &Subscription{topic: vpT0, ch: make(chan *Message, 6), ctx: ps.ctx}
	ps.handleAddSubscription(&addSubReq{sub: sub, resp: make(chan *Subscription, 1)})
	q := n.vpAddPeer("p0", GossipSubID_v11, true)
	ps.handleIncomingRPC(vpSubRPC("p0", vpT0, true))
	n.gs.mesh[vpT0]["p0"] = struct{}{}
	vpDrain(q)
	ms := []*Message{vpMkMsg("self", "1", vpT0), vpMkMsg("self", "2", vpT0), vpMkMsg("self", "3", vpT0)}
	for _, m := range ms {
		m.ReceivedFrom = "self"
		vpAssert(ps.val.ValidateLocal(m) == nil, "a valid local publication is accepted")
	}
	n.tr.evts = nil
	k1 := vpInt("first_batch_size", 1, 2)
	b := &MessageBatch{}
	for i := 0; i < 2; i++ {
		if i < k1 {
			b.add(ms[i])
		}
	}
	vpAssert(ps.PublishBatch(b) == nil, "PublishBatch hands the batch over")
	// refill the same batch object while the first hand-over is still waiting for the event loop
	if refillEarly {
		b.add(ms[2])
	}
	n.loop()
	if !refillEarly {
		b.add(ms[2])
	}
	vpAssert(ps.PublishBatch(b) == nil, "PublishBatch hands the refilled batch over")
	n.loop()
	sentRPCs := vpDrain(q)
	for i, m := range ms {
		want := 1
		if i == 1 && k1 < 2 {
			want = 0
		}
		id := ps.idGen.ID(m)
		del := 0
		for _, e := range n.tr.evts {
			if e.typ == pb.TraceEvent_DELIVER_MESSAGE && e.mid == id {
				del++
			}
		}
		vpAssert(del == want, "every message of a published batch has exactly one DELIVER_MESSAGE event, none twice, also when the batch object is reused")
		sent := 0
		for _, r := range sentRPCs {
			for _, pm := range r.Publish {
				if pm == m.Message {
					sent++
				}
			}
		}
		vpAssert(sent == want, "every message of the batch is queued to the mesh peer exactly once")
	}
	vpAssert(len(sub.ch) == k1+1, "the local subscription receives every published message once")
	vpCover(k1 == 2, "two-message batch, then a refill of the same object")
	n.shutdown()
}

// announce_retry: SEND_RPC / DROP_RPC accounting on the announcement path with two peers and on the RETRY path
// (shared with C05 retry2).
func vpH_C19_announce_retry() { vpH_C05_retry2() }
