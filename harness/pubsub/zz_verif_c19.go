//go:build verif

package pubsub

import (
	pb "github.com/libp2p/go-libp2p-pubsub/pb"
)

// ---- C19: the event trace is a faithful account ---------------------------------------------------

// joinleave: under every router a Join records exactly one JOIN and a Leave exactly one LEAVE for the
// topic, so JOIN/LEAVE alternate per topic.
func vpH_C19_joinleave() {
	for _, router := range []string{"gossipsub", "floodsub", "randomsub"} {
		n := vpNewNode("self", vpNodeCfg{router: router, tracer: true})
		k := len(n.tr.evts)
		n.ps.rt.Join("t0")
		vpAssert(len(n.tr.evts) == k+1 && n.tr.evts[k].typ == pb.TraceEvent_JOIN && n.tr.evts[k].topic == "t0", "Join records exactly one JOIN event for the topic ("+router+")")
		k = len(n.tr.evts)
		n.ps.rt.Leave("t0")
		joins, leaves := 0, 0
		for _, e := range n.tr.evts[k:] {
			if e.typ == pb.TraceEvent_JOIN {
				joins++
			}
			if e.typ == pb.TraceEvent_LEAVE && e.topic == "t0" {
				leaves++
			}
		}
		vpAssert(joins == 0 && leaves == 1, "Leave records exactly one LEAVE event and no JOIN ("+router+")")
	}
	vpCover(true, "ran")
}
