//go:build verif

package pubsub

import (
	pb "github.com/libp2p/go-libp2p-pubsub/pb"
	"github.com/libp2p/go-libp2p/core/peer"
)

// ---- C03: only authentic messages are accepted under the configured signature policy ---------------
//
// Cryptography and peer-ID parsing are uninterpreted: the harness draws OUTCOME CLASSES (author bytes parse /
// key extractable from the ID / attached key parses / attached key is the author's / signature verifies) and the
// engine's crypto stubs answer accordingly (contract: the key bound to an author verifies exactly the valid
// signatures). What is decided is everything the library itself contributes: presence rules per policy, binding of
// key to author, self-origin rejection, and that nothing unauthentic reaches delivery. Engine-only harness
// (no native realisation of the outcome classes): counterexamples are confirmed by concrete re-execution in the engine.

func b2i(b bool) int {
	if b {
		return 1
	}
	return 0
}

func vpInbound(policy MessageSignaturePolicy, author bool) {
	nd := vpNewNode("self", vpNodeCfg{router: "floodsub", tracer: true})
	ps := nd.ps
	ps.signPolicy = policy
	if !author {
		ps.signID = ""
	}
	hasSig, hasFrom, hasSeqno, hasKey := vpBool("has_signature"), vpBool("has_from"), vpBool("has_seqno"), vpBool("has_key")
	fromSelf := vpBool("from_is_self")
	srcSelf := vpBool("received_from_self")
	fromGarbage, extractable := vpBool("from_garbage"), vpBool("from_extractable")
	keyGarbage, keyIsAuthor, sigValid := vpBool("key_garbage"), vpBool("key_is_author"), vpBool("sig_valid")
	sigByOther := vpBool("sig_verifies_under_the_other_key") // a forger signing with a key of its own
	sigEmpty := vpBool("signature_field_present_but_empty")  // what Unmarshal yields for a zero-length signature field
	vpAssume(!sigEmpty || (!sigValid && !sigByOther))          // an empty signature verifies under no key
	vpCryptoSet("from_garbage", b2i(fromGarbage))
	vpCryptoSet("from_extractable", b2i(extractable))
	vpCryptoSet("key_garbage", b2i(keyGarbage))
	vpCryptoSet("key_is_author", b2i(keyIsAuthor))
	vpCryptoSet("sig_valid", b2i(sigValid))
	vpCryptoSet("sig_by_other", b2i(sigByOther))
	// how the author's key type reports a signature that does not verify: (false, nil) as ed25519 does, or (false, error)
	// as RSA, ECDSA and secp256k1 do
	vpCryptoSet("sig_mismatch_is_error", b2i(vpBool("key_type_reports_mismatch_as_error")))
	topic := vpT0
	m := &pb.Message{Data: []byte("d"), Topic: &topic}
	if hasFrom {
		if fromSelf {
			m.From = []byte("self")
		} else {
			m.From = []byte("A")
		}
	}
	if hasSeqno {
		m.Seqno = []byte("12345678")
	}
	if hasKey {
		m.Key = []byte("K")
	}
	if hasSig {
		m.Signature = []byte("S")
		if sigEmpty {
			m.Signature = []byte{}
		}
	}
	msg := &Message{Message: m, ReceivedFrom: "p0"}
	if srcSelf {
		msg.ReceivedFrom = "self"
	}
	// the real inbound path: shouldPush -> pushMsg -> (validation queue) -> validate
	delivered := 0
	if ps.shouldPush(msg) {
		ps.pushMsg(msg)
		for len(ps.val.validateQ) > 0 {
			req := <-ps.val.validateQ
			ps.val.validate(req.vals, req.src, req.msg, false, func(*Message) error { delivered++; return nil })
		}
	}
	delivered += nd.tr.count(pb.TraceEvent_DELIVER_MESSAGE)
	accepted := delivered > 0
	vpAssert(delivered <= 1, "a message is released at most once")

	// oracle, from the statement
	authentic := hasFrom && !fromGarbage && sigValid
	if hasKey {
		authentic = authentic && !keyGarbage && keyIsAuthor
	} else {
		authentic = authentic && extractable
	}
	ok := true
	if hasSig && !authentic {
		ok = false // a present signature must verify under the key bound to the claimed author (every policy)
	}
	if policy == StrictSign && !hasSig {
		ok = false
	}
	if policy == StrictNoSign {
		if hasSig {
			ok = false
		}
		if !author && (hasFrom || hasSeqno || hasKey) {
			ok = false
		}
	}
	if hasFrom && fromSelf && !srcSelf {
		ok = false // naming the local node as author but arriving from another peer
	}
	vpAssert(accepted == ok, "a received message is accepted exactly when the signature policy's presence rules hold, any signature verifies under the key bound to its author, and it does not falsely claim local origin")
	if policy != StrictNoSign {
		vpCover(accepted && hasSig && hasKey, "accepted with attached key")
	} else {
		vpCover(accepted && !hasSig, "unsigned message accepted under the no-signing policy")
	}
	vpCover(!accepted && hasSig && hasKey && !keyIsAuthor && sigValid, "rejected: attached key is not the author's")
	if policy != StrictNoSign {
		vpCover(!accepted && hasSig && sigEmpty && hasFrom && !fromGarbage, "rejected: present but empty signature")
	}
}

func vpH_C03_inbound_strictsign()   { vpOpt("native", 0); vpInbound(StrictSign, true) }
func vpH_C03_inbound_strictnosign() { vpOpt("native", 0); vpInbound(StrictNoSign, true) }
func vpH_C03_inbound_anonymous()    { vpOpt("native", 0); vpInbound(StrictNoSign, false) }
func vpH_C03_inbound_laxsign()      { vpOpt("native", 0); vpInbound(LaxSign, true) }
func vpH_C03_inbound_laxnosign()    { vpOpt("native", 0); vpInbound(LaxNoSign, true) }
func vpH_C03_inbound_laxanon()      { vpOpt("native", 0); vpInbound(LaxNoSign, false) }

var _ = peer.ID("")
