//go:build verif

package pubsub

import (
	"log/slog"
	"time"

	"github.com/libp2p/go-libp2p/core/peer"
)

// ---- C10 (continued): one scoring event from an arbitrary counter state (step-inductive form) ------------------
// Each harness runs ONE real event handler on the arbitrary state of vpArbScore (parameters accepted by the real
// validation, counters arbitrary non-negative numbers up to 1e12) and compares every counter of the post-state with
// the scoring function's bookkeeping rule for that event. The post-state must again satisfy the range invariant
// (numbers, non-negative, at most the cap where the cap applies), which is what makes the one-step claims compose.

func vpEvWorld() (*vpScoreWorld, topicStats) {
	w := vpArbScore(true)
	w.assumeBounded()
	w.ps.logger = slog.Default()
	vpAssume(vpNotHuge(w.tp.FirstMessageDeliveriesCap) && vpNotHuge(w.tp.MeshMessageDeliveriesCap) && vpNotHuge(w.tp.FirstMessageDeliveriesDecay) &&
		vpNotHuge(w.tp.MeshMessageDeliveriesDecay) && vpNotHuge(w.tp.MeshFailurePenaltyDecay) && vpNotHuge(w.tp.InvalidMessageDeliveriesDecay) && vpNotHuge(w.pp.BehaviourPenaltyDecay))
	return w, *w.ts
}

func vpNum(x float64) bool { return x == x && x >= 0 }

func (w *vpScoreWorld) assertRange(what string) {
	ts := w.ts
	vpAssert(vpNum(ts.firstMessageDeliveries) && vpNum(ts.meshMessageDeliveries) && vpNum(ts.meshFailurePenalty) && vpNum(ts.invalidMessageDeliveries) && vpNum(w.st.behaviourPenalty),
		what+": counters stay non-negative numbers")
}

func vpMin(a, b float64) float64 {
	if a > b {
		return b
	}
	return a
}

// deliver: first delivery by the peer.
func vpH_C10_ev_deliver() {
	w, pre := vpEvWorld()
	m := vpMkMsg("A", "1", vpT0)
	m.ReceivedFrom = "p"
	w.ps.DeliverMessage(m)
	ts, tp := w.ts, w.tp
	vpAssert(ts.firstMessageDeliveries == vpMin(pre.firstMessageDeliveries+1, tp.FirstMessageDeliveriesCap), "a first delivery adds one to the first-deliveries counter, capped")
	if pre.inMesh {
		vpAssert(ts.meshMessageDeliveries == vpMin(pre.meshMessageDeliveries+1, tp.MeshMessageDeliveriesCap), "a first delivery by a mesh peer adds one to the mesh-deliveries counter, capped")
	} else {
		vpAssert(ts.meshMessageDeliveries == pre.meshMessageDeliveries, "a first delivery by a non-mesh peer leaves the mesh-deliveries counter alone")
	}
	vpAssert(ts.meshFailurePenalty == pre.meshFailurePenalty && ts.invalidMessageDeliveries == pre.invalidMessageDeliveries && ts.inMesh == pre.inMesh && ts.meshMessageDeliveriesActive == pre.meshMessageDeliveriesActive, "nothing else changes")
	if tp.FirstMessageDeliveriesWeight != 0 {
		vpAssert(ts.firstMessageDeliveries <= tp.FirstMessageDeliveriesCap, "the first-deliveries counter never exceeds its cap")
	}
	if tp.MeshMessageDeliveriesWeight != 0 && pre.inMesh {
		vpAssert(ts.meshMessageDeliveries <= tp.MeshMessageDeliveriesCap, "the mesh-deliveries counter never exceeds its cap")
	}
	if tp.FirstMessageDeliveriesWeight != 0 && tp.MeshMessageDeliveriesWeight != 0 {
		w.assertRange("deliver")
	}
	vpCover(pre.firstMessageDeliveries+1 > tp.FirstMessageDeliveriesCap && pre.firstMessageDeliveries < tp.FirstMessageDeliveriesCap, "fractional counter within one of the cap")
}

// duplicate: a copy arriving from the peer before / after validation finished; only copies inside the delivery
// window count, once per peer, only for mesh members.
func vpH_C10_ev_duplicate() {
	w, pre := vpEvWorld()
	w.ps.peerStats["q"] = &peerStats{connected: true, topics: map[string]*topicStats{}}
	first, dup := vpMkMsg("A", "1", vpT0), vpMkMsg("A", "1", vpT0)
	first.ReceivedFrom, dup.ReceivedFrom = "q", "p"
	early := vpBool("copy_arrives_during_validation")
	dt := time.Duration(vpInt("copy_delay", 0, 1<<31))
	twice := vpBool("copy_sent_twice")
	w.ps.ValidateMessage(first)
	if early {
		w.ps.DuplicateMessage(dup)
		if twice {
			w.ps.DuplicateMessage(dup)
		}
		w.ps.DeliverMessage(first)
	} else {
		w.ps.DeliverMessage(first)
		vpAdvance(dt)
		w.ps.DuplicateMessage(dup)
		if twice {
			w.ps.DuplicateMessage(dup)
		}
	}
	ts, tp := w.ts, w.tp
	counts := pre.inMesh && (early || dt <= tp.MeshMessageDeliveriesWindow)
	if counts {
		vpAssert(ts.meshMessageDeliveries == vpMin(pre.meshMessageDeliveries+1, tp.MeshMessageDeliveriesCap), "a copy from a mesh peer inside the delivery window counts once towards mesh deliveries, capped")
	} else {
		vpAssert(ts.meshMessageDeliveries == pre.meshMessageDeliveries, "a copy from outside the mesh or after the delivery window does not count")
	}
	vpAssert(ts.firstMessageDeliveries == pre.firstMessageDeliveries && ts.invalidMessageDeliveries == pre.invalidMessageDeliveries && ts.meshFailurePenalty == pre.meshFailurePenalty, "a duplicate touches nothing else")
	vpCover(!early && pre.inMesh && dt == tp.MeshMessageDeliveriesWindow && dt > 0, "copy exactly at the window edge")
	vpCover(!early && pre.inMesh && dt > tp.MeshMessageDeliveriesWindow, "copy after the window")
}

var vpRejectReasons = []string{RejectBlacklstedPeer, RejectBlacklistedSource, RejectMissingSignature, RejectUnexpectedSignature, RejectUnexpectedAuthInfo,
	RejectInvalidSignature, RejectValidationQueueFull, RejectValidationThrottled, RejectValidationFailed, RejectValidationIgnored, RejectSelfOrigin}

// reject: every rejection reason, with an earlier copy from a second peer on record.
func vpRejectWith(ri int) {
	w, pre := vpEvWorld()
	q := &topicStats{}
	w.ps.peerStats["q"] = &peerStats{connected: true, topics: map[string]*topicStats{vpT0: q}}
	m, dup := vpMkMsg("A", "1", vpT0), vpMkMsg("A", "1", vpT0)
	m.ReceivedFrom, dup.ReceivedFrom = "p", "q"
	reason := vpRejectReasons[ri]
	w.ps.ValidateMessage(m)
	w.ps.DuplicateMessage(dup)
	w.ps.RejectMessage(m, reason)
	late := vpBool("late_copy")
	if late {
		w.ps.DuplicateMessage(&Message{Message: m.Message, ReceivedFrom: "p"}) // the same peer sends it again afterwards
	}
	ts := w.ts
	want, other := pre.invalidMessageDeliveries, 0.0
	switch reason {
	case RejectMissingSignature, RejectInvalidSignature, RejectUnexpectedSignature, RejectUnexpectedAuthInfo, RejectSelfOrigin:
		want += 1 // obviously invalid: the sender alone, untracked (a late copy is merely tracked: the record stays "unknown")
	case RejectValidationFailed:
		want += 1
		other = 1
		if late {
			want += 1
		}
	}
	vpAssert(ts.invalidMessageDeliveries == want, "the invalid-deliveries counter of the sender grows exactly as the rejection reason prescribes")
	vpAssert(q.invalidMessageDeliveries == other, "peers that forwarded the same message earlier are charged only for a failed validation")
	vpAssert(ts.firstMessageDeliveries == pre.firstMessageDeliveries && ts.meshMessageDeliveries == pre.meshMessageDeliveries && ts.meshFailurePenalty == pre.meshFailurePenalty, "a rejection touches no other counter")
	w.assertRange("reject")
	vpCover(late, "late copy")
}

func vpH_C10_ev_reject_blacklisted_peer()   { vpRejectWith(0) }
func vpH_C10_ev_reject_blacklisted_source() { vpRejectWith(1) }
func vpH_C10_ev_reject_missing_sig()        { vpRejectWith(2) }
func vpH_C10_ev_reject_unexpected_sig()     { vpRejectWith(3) }
func vpH_C10_ev_reject_unexpected_auth()    { vpRejectWith(4) }
func vpH_C10_ev_reject_invalid_sig()        { vpRejectWith(5) }
func vpH_C10_ev_reject_queue_full()         { vpRejectWith(6) }
func vpH_C10_ev_reject_throttled()          { vpRejectWith(7) }
func vpH_C10_ev_reject_failed()             { vpRejectWith(8) }
func vpH_C10_ev_reject_ignored()            { vpRejectWith(9) }
func vpH_C10_ev_reject_self_origin()        { vpRejectWith(10) }

func vpDeficitPenalty(pre topicStats, tp *TopicScoreParams) float64 {
	if pre.meshMessageDeliveriesActive && pre.meshMessageDeliveries < tp.MeshMessageDeliveriesThreshold {
		d := tp.MeshMessageDeliveriesThreshold - pre.meshMessageDeliveries
		return d * d
	}
	return 0
}

// graft / prune bookkeeping, and the sticky penalty applied exactly once per mesh membership.
func vpH_C10_ev_graft_prune() {
	w, pre := vpEvWorld()
	ts, tp := w.ts, w.tp
	if vpBool("graft") {
		now := time.Now()
		w.ps.Graft("p", vpT0)
		vpAssert(ts.inMesh && ts.meshTime == 0 && !ts.meshMessageDeliveriesActive && ts.graftTime.Equal(now), "GRAFT starts a new mesh membership: time zero, deficit tracking inactive")
		vpAssert(ts.firstMessageDeliveries == pre.firstMessageDeliveries && ts.meshMessageDeliveries == pre.meshMessageDeliveries && ts.meshFailurePenalty == pre.meshFailurePenalty && ts.invalidMessageDeliveries == pre.invalidMessageDeliveries, "GRAFT changes no counter")
	} else {
		vpAssume(pre.inMesh) // (the router prunes mesh members only)
		w.ps.Prune("p", vpT0)
		vpAssert(!ts.inMesh, "PRUNE ends the mesh membership")
		vpAssert(ts.meshFailurePenalty == pre.meshFailurePenalty+vpDeficitPenalty(pre, tp), "PRUNE adds the squared delivery deficit to the sticky penalty only if deficit tracking is active")
		vpAssert(ts.firstMessageDeliveries == pre.firstMessageDeliveries && ts.meshMessageDeliveries == pre.meshMessageDeliveries && ts.invalidMessageDeliveries == pre.invalidMessageDeliveries, "PRUNE changes no other counter")
		w.assertRange("prune")
	}
	vpCover(!ts.inMesh && ts.meshFailurePenalty > pre.meshFailurePenalty, "sticky penalty applied")
}

// close: disconnect. Positive scores are dropped, non-positive ones retained for RetainScore with first deliveries
// reset and the sticky penalty applied only to topics the peer is still in the mesh of.
func vpH_C10_ev_close() {
	w, pre := vpEvWorld()
	w.pp.RetainScore = time.Duration(vpInt("RetainScore", 0, 1<<40))
	ts, tp := w.ts, w.tp
	vpAssume(tp.TimeInMeshQuantum != 0)
	s := w.ps.score("p")
	now := time.Now()
	w.ps.OnClosedOutboundStream("p")
	st, kept := w.ps.peerStats["p"]
	vpAssert(kept == !(s > 0), "a positive score is dropped at disconnect, a non-positive one retained")
	if kept {
		vpAssert(st == w.st && !st.connected && st.expire.Equal(now.Add(w.pp.RetainScore)), "retained for the retention period")
		vpAssert(ts.firstMessageDeliveries == 0 && !ts.inMesh, "first deliveries are reset and mesh membership ends")
		want := pre.meshFailurePenalty
		if pre.inMesh {
			want += vpDeficitPenalty(pre, tp)
		}
		vpAssert(ts.meshFailurePenalty == want, "the sticky penalty is applied at disconnect only for a topic the peer is still in the mesh of (never twice for one membership)")
		vpAssert(ts.meshMessageDeliveries == pre.meshMessageDeliveries && ts.invalidMessageDeliveries == pre.invalidMessageDeliveries, "other counters are kept")
		w.assertRange("close")
	} else {
		_, ipKept := w.ps.peerIPs["1.2.3.4"]["p"]
		vpAssert(!ipKept || w.nIP == 0, "a dropped peer leaves the IP table")
	}
	vpCover(kept && !pre.inMesh && pre.meshMessageDeliveriesActive && pre.meshMessageDeliveries < tp.MeshMessageDeliveriesThreshold, "retained, already pruned, deficit outstanding")
	vpCover(!kept, "dropped")
}

func vpDecay(x, f, z float64) float64 {
	x *= f
	if x < z {
		x = 0
	}
	return x
}

// refresh: one decay tick.
func vpH_C10_ev_refresh() {
	w, pre := vpEvWorld()
	ts, tp, pp := w.ts, w.tp, w.pp
	b0 := w.st.behaviourPenalty
	connected := vpBool("connected")
	w.st.connected = connected
	graftAge := time.Duration(vpInt("graft_age", 0, 1<<41))
	expOff := time.Duration(vpInt("expire_offset", -4, 4))
	now := time.Now()
	ts.graftTime = now.Add(-graftAge)
	w.st.expire = now.Add(expOff)
	w.ps.refreshScores()
	_, kept := w.ps.peerStats["p"]
	if !connected {
		vpAssert(kept == !(expOff < 0), "a retained record is purged once its retention period has elapsed, not before")
		vpAssert(*ts == func() topicStats { p := pre; p.graftTime = ts.graftTime; return p }() && w.st.behaviourPenalty == b0, "retained scores do not decay")
		return
	}
	z := pp.DecayToZero
	same := func(a, b float64) bool { return a == b || (a != a && b != b) }
	vpAssert(same(ts.firstMessageDeliveries, vpDecay(pre.firstMessageDeliveries, tp.FirstMessageDeliveriesDecay, z)), "first deliveries are multiplied by their decay factor and dropped to zero below DecayToZero")
	vpAssert(same(ts.meshMessageDeliveries, vpDecay(pre.meshMessageDeliveries, tp.MeshMessageDeliveriesDecay, z)), "mesh deliveries are multiplied by their decay factor and dropped to zero below DecayToZero")
	vpAssert(same(ts.meshFailurePenalty, vpDecay(pre.meshFailurePenalty, tp.MeshFailurePenaltyDecay, z)), "the sticky penalty is multiplied by its decay factor and dropped to zero below DecayToZero")
	vpAssert(same(ts.invalidMessageDeliveries, vpDecay(pre.invalidMessageDeliveries, tp.InvalidMessageDeliveriesDecay, z)), "invalid deliveries are multiplied by their decay factor and dropped to zero below DecayToZero")
	vpAssert(same(w.st.behaviourPenalty, vpDecay(b0, pp.BehaviourPenaltyDecay, z)), "the behaviour penalty is multiplied by its decay factor and dropped to zero below DecayToZero")
	if pre.inMesh {
		vpAssert(ts.meshTime == graftAge, "time in mesh is the time since the GRAFT")
		vpAssert(ts.meshMessageDeliveriesActive == (pre.meshMessageDeliveriesActive || graftAge > tp.MeshMessageDeliveriesActivation), "deficit tracking activates only after the activation time in the mesh")
	} else {
		vpAssert(ts.meshTime == pre.meshTime && ts.meshMessageDeliveriesActive == pre.meshMessageDeliveriesActive, "outside the mesh nothing is timed")
	}
	// whatever the accepted parameters (a disabled component's decay factor is constrained only to be a number), a tick
	// leaves every counter a non-negative number
	vpAssert(vpNum(ts.firstMessageDeliveries), "after a decay tick first deliveries are a non-negative number")
	vpAssert(vpNum(ts.meshMessageDeliveries), "after a decay tick mesh deliveries are a non-negative number")
	vpAssert(vpNum(ts.meshFailurePenalty), "after a decay tick the sticky penalty is a non-negative number")
	vpAssert(vpNum(ts.invalidMessageDeliveries), "after a decay tick invalid deliveries are a non-negative number")
	vpAssert(vpNum(w.st.behaviourPenalty), "after a decay tick the behaviour penalty is a non-negative number")
	vpCover(pre.inMesh && !pre.meshMessageDeliveriesActive && ts.meshMessageDeliveriesActive, "activation")
	vpCover(pre.invalidMessageDeliveries > 0 && ts.invalidMessageDeliveries == 0, "decayed to zero")
}

// penalty: AddPenalty.
func vpH_C10_ev_penalty() {
	w, pre := vpEvWorld()
	b0 := w.st.behaviourPenalty
	n := vpInt("count", 0, 1000)
	w.ps.AddPenalty("p", n)
	vpAssert(w.st.behaviourPenalty == b0+float64(n) && *w.ts == pre, "a behaviour penalty of n adds n to the P7 counter and nothing else")
	w.assertRange("penalty")
	w.ps.AddPenalty("unknown", 1)
	_, made := w.ps.peerStats["unknown"]
	vpAssert(!made, "penalties for unknown peers create no record")
	vpCover(n > 0, "positive")
}

// recap: a parameter update that lowers caps re-caps the counters; one that does not leaves them alone.
func vpH_C10_ev_recap() {
	w, pre := vpEvWorld()
	np := *w.tp
	np.FirstMessageDeliveriesCap = vpFloat("new_FirstMessageDeliveriesCap")
	np.MeshMessageDeliveriesCap = vpFloat("new_MeshMessageDeliveriesCap")
	vpAssume(np.validate() == nil && vpBounded(np.FirstMessageDeliveriesCap) && vpBounded(np.MeshMessageDeliveriesCap))
	vpAssume(w.tp.FirstMessageDeliveriesWeight != 0 && w.tp.MeshMessageDeliveriesWeight != 0)
	vpAssume(pre.firstMessageDeliveries <= w.tp.FirstMessageDeliveriesCap && pre.meshMessageDeliveries <= w.tp.MeshMessageDeliveriesCap) // range invariant before
	err := w.ps.SetTopicScoreParams(vpT0, &np)
	ts := w.ts
	vpAssert(err == nil && w.ps.params.Topics[vpT0] == &np, "the new parameters are installed")
	vpAssert(ts.firstMessageDeliveries == vpMin(pre.firstMessageDeliveries, np.FirstMessageDeliveriesCap) && ts.meshMessageDeliveries == vpMin(pre.meshMessageDeliveries, np.MeshMessageDeliveriesCap),
		"after a parameter update the counters are within the new caps and otherwise unchanged")
	vpAssert(ts.meshFailurePenalty == pre.meshFailurePenalty && ts.invalidMessageDeliveries == pre.invalidMessageDeliveries, "other counters untouched")
	vpCover(ts.firstMessageDeliveries < pre.firstMessageDeliveries, "re-capped")
}

var _ = peer.ID("")
