//go:build verif

package pubsub

import (
	"time"

	pb "github.com/libp2p/go-libp2p-pubsub/pb"
	"github.com/libp2p/go-libp2p/core/peer"
)

// ---- C07: mesh maintenance keeps every joined topic's mesh within its invariants -------------------

// vpInvMesh: the structural part of the invariant, asserted after every step.
func (w *vpWorld) assertInv(joinedAfter bool) {
	gs := w.n.gs
	_, hasMesh := gs.mesh[vpT0]
	_, hasFan := gs.fanout[vpT0]
	_, hasLP := gs.lastpub[vpT0]
	vpAssert(hasMesh == joinedAfter, "a mesh exists exactly for joined topics")
	vpAssert(!(hasMesh && (hasFan || hasLP)), "fanout state exists only for topics that are not joined")
	for i, p := range w.peers {
		_, inMesh := gs.mesh[vpT0][p]
		_, inFan := gs.fanout[vpT0][p]
		_, conn := gs.peers[p]
		vpAssert(!inMesh || conn, "mesh members are currently connected peers")
		vpAssert(!inFan || conn, "fanout members are currently connected peers")
		_ = i
	}
}

func (w *vpWorld) eligible(i int, needOutbound bool) bool {
	// who the node may add on its own initiative
	return w.inTopic[i] && w.capable(i) && !w.mesh[i] && !w.direct[i] && !w.hasBO[i] && w.score[i] >= 0 && (!needOutbound || w.outb[i])
}

// handleGraft: admission rules for a remote GRAFT.
func vpH_C07_handleGraft() {
	w := vpNewWorld(vpWorldCfg{P: 4, params: vpSmallParams(), scoring: true, direct: true, doPX: true})
	gs := w.n.gs
	i := vpInt("sender", 0, w.P-1)
	vpAssume(w.up[i])
	p := w.peers[i]
	size0 := w.meshSize0()
	out := gs.handleGraft(p, vpGraftCtl(vpT0))
	admitted := w.inMeshNow(i) && !w.mesh[i]
	backedOff := w.hasBO[i] && w.now.Before(w.boExp[i])
	full := size0 >= gs.params.Dhi && !w.outb[i]
	should := w.joined && !w.mesh[i] && !w.direct[i] && !backedOff && w.score[i] >= 0 && !full
	vpAssert(admitted == should, "a GRAFT is admitted exactly when the topic is joined and the sender is not direct, not backed off, not negatively scored and the mesh is below Dhi (or the sender is outbound)")
	if w.joined && !w.mesh[i] && !should {
		vpAssert(len(out) == 1 && out[0].GetTopicID() == vpT0, "every refused GRAFT is answered with a PRUNE")
		if w.score[i] < 0 || w.direct[i] || backedOff {
			vpAssert(len(out[0].GetPeers()) == 0, "a PRUNE refusing a negative-score, direct or backed-off peer carries no peer exchange")
		}
	}
	if !w.joined {
		vpAssert(len(out) == 0 && !w.inMeshNow(i), "GRAFT for a topic that is not joined is ignored")
	}
	if should {
		vpAssert(len(out) == 0, "an admitted GRAFT is not answered with a PRUNE")
	}
	for j := range w.peers {
		if j != i {
			vpAssert(w.inMeshNow(j) == w.mesh[j], "other members are untouched")
		}
	}
	w.assertInv(w.joined)
	vpCover(admitted && size0 >= gs.params.Dhi, "admitted above Dhi because outbound")
	vpCover(w.joined && !w.mesh[i] && full && !backedOff && w.score[i] >= 0 && !w.direct[i], "refused: mesh full and inbound")
	vpCover(w.joined && w.score[i] == 0 && admitted, "score exactly 0 is admitted")
}

// handlePrune: removal and backoff.
func vpH_C07_handlePrune() {
	w := vpNewWorld(vpWorldCfg{P: 3, params: vpSmallParams(), scoring: true, direct: true})
	gs := w.n.gs
	i := vpInt("sender", 0, w.P-1)
	p := w.peers[i]
	hasB := vpBool("names_backoff")
	b := []uint64{0, 1, 59, 60, 61, 3600}[vpInt("backoff_choice", 0, 5)] // seconds (a symbolic multiplier times 10^9 is out of solver reach)
	topic := vpT0
	pr := &pb.ControlPrune{TopicID: &topic}
	if hasB {
		pr.Backoff = &b
	}
	gs.handlePrune(p, &pb.ControlMessage{Prune: []*pb.ControlPrune{pr}})
	vpAssert(!w.inMeshNow(i), "a peer that pruned us is no longer a mesh member")
	for j := range w.peers {
		if j != i {
			vpAssert(w.inMeshNow(j) == w.mesh[j], "other members are untouched")
		}
	}
	if w.joined {
		exp, ok := gs.backoff[vpT0][p]
		want := gs.params.PruneBackoff
		if hasB && b > 0 {
			want = time.Duration(b) * time.Second
		}
		vpAssert(ok && !exp.Before(w.now.Add(want)), "the backoff named in the PRUNE (else the configured prune backoff) is recorded")
		if w.hasBO[i] {
			vpAssert(!exp.Before(w.boExp[i]), "an existing backoff is never shortened")
		}
	}
	w.assertInv(w.joined)
	vpCover(w.joined && w.mesh[i] && hasB && b == 1, "member pruned us with a 1 s backoff")
}

// join: Join (fresh, or promoting a fanout set) creates the mesh, grafts only eligible peers, sends each a GRAFT.
func vpH_C07_join() {
	w := vpNewWorld(vpWorldCfg{P: 4, params: vpSmallParams(), scoring: true, direct: true})
	gs := w.n.gs
	vpAssume(!w.joined)
	hadFanout := len(gs.fanout[vpT0]) > 0
	_, hadFanoutEntry := gs.fanout[vpT0]
	gs.Join(vpT0)
	added, cand, keptFan, fan0 := 0, 0, 0, 0
	for i := range w.peers {
		in := w.inMeshNow(i)
		wire := vpReadWire(w.q[i])
		okNew := w.inTopic[i] && w.capable(i) && !w.direct[i] && !w.hasBO[i] && w.score[i] >= 0
		if w.fanout[i] {
			fan0++
			// promoted fanout member: kept unless negative or backed off
			keep := w.score[i] >= 0 && !w.hasBO[i]
			vpAssert(in == keep, "a fanout member is promoted into the mesh unless its score is negative or it is backed off")
			if keep {
				keptFan++
			}
		} else if in {
			vpAssert(okNew, "Join only adds peers that are in the topic, mesh-capable, not direct, not backed off and not negatively scored")
			added++
		}
		if okNew && !w.fanout[i] {
			cand++
		}
		vpAssert((wire.graft == 1) == in && wire.graft <= 1, "every peer added by Join is sent exactly one GRAFT and nobody else is")
		vpAssert(wire.prune == 0, "Join sends no PRUNE")
	}
	need := gs.params.D - keptFan
	if need < 0 {
		need = 0
	}
	want := need
	if cand < want {
		want = cand
	}
	if hadFanoutEntry && keptFan >= gs.params.D {
		want = 0
	}
	vpObserve("added", added)
	vpObserve("want", want)
	vpObserve("cand", cand)
	vpObserve("keptFan", keptFan)
	vpAssert(added == want, "Join fills the mesh up to D with eligible candidates (all of them if fewer)")
	w.assertInv(true)
	vpCover(hadFanout && keptFan > 0 && added > 0, "fanout promoted and topped up")
	vpCover(!hadFanoutEntry && added == gs.params.D && cand > gs.params.D, "fresh join with more candidates than D")
}

// leave: Leave destroys the mesh, PRUNEs every member and applies the unsubscribe backoff.
func vpH_C07_leave() {
	w := vpNewWorld(vpWorldCfg{P: 3, params: vpSmallParams(), scoring: true, direct: true})
	gs := w.n.gs
	vpAssume(w.joined)
	gs.Leave(vpT0)
	for i, p := range w.peers {
		wire := vpReadWire(w.q[i])
		vpAssert((wire.prune == 1) == w.mesh[i] && wire.prune <= 1, "Leave sends exactly one PRUNE to every former mesh member and to nobody else")
		vpAssert(wire.graft == 0, "Leave sends no GRAFT")
		if w.mesh[i] {
			exp, ok := gs.backoff[vpT0][p]
			vpAssert(ok && !exp.Before(w.now.Add(gs.params.UnsubscribeBackoff)), "Leave applies the unsubscribe backoff to every former member")
			if w.speaksV11(i) {
				vpAssert(len(wire.pruneBackoff) == 1 && wire.pruneBackoff[0] == uint64(gs.params.UnsubscribeBackoff/time.Second), "the PRUNE sent on Leave states the unsubscribe backoff")
			}
		}
	}
	w.assertInv(false)
	vpCover(w.meshSize0() == 2, "left a mesh of two")
}

// peerdown: a departed peer is removed from mesh and fanout.
func vpH_C07_peerdown() {
	w := vpNewWorld(vpWorldCfg{P: 3, params: vpSmallParams(), scoring: true, direct: true})
	gs := w.n.gs
	i := vpInt("peer", 0, w.P-1)
	vpAssume(w.up[i])
	p := w.peers[i]
	delete(w.n.ps.peers, p)
	gs.OnClosedOutboundStream(p)
	_, inMesh := gs.mesh[vpT0][p]
	_, inFan := gs.fanout[vpT0][p]
	_, known := gs.peers[p]
	vpAssert(!inMesh && !inFan && !known, "a departed peer is removed from the router's peer set, mesh and fanout")
	w.assertInv(w.joined)
	vpCover(w.mesh[i], "mesh member departed")
	vpCover(w.fanout[i], "fanout member departed")
}

// heartbeat: one real heartbeat from an arbitrary state, checked phase by phase against the set-level
// reference of DESIGN.md Appendix C (C07).
func vpHeartbeatStep(P int, params GossipSubParams, ticks0 uint64) { vpHeartbeatStepX(P, params, ticks0, false) }

func vpHeartbeatStepX(P int, params GossipSubParams, ticks0 uint64, allInMesh bool) {
	w := vpNewWorld(vpWorldCfg{P: P, params: params, scoring: true, direct: true, noFanout: true, allInMesh: allInMesh, concreteScores: allInMesh})
	gs := w.n.gs
	vpAssume(w.joined)
	gs.heartbeatTicks = ticks0
	D, Dlo, Dhi, Dscore, Dout := params.D, params.Dlo, params.Dhi, params.Dscore, params.Dout
	// -- reference, phase (a): negative members go
	m1 := 0
	for i := range w.peers {
		if w.mesh[i] && w.score[i] >= 0 {
			m1++
		}
	}
	m0 := w.meshSize0()
	gs.heartbeat()
	added, removed, keptNeg := 0, 0, 0
	addedOutb := 0
	size := 0
	for i, p := range w.peers {
		in := w.inMeshNow(i)
		wire := vpReadWire(w.q[i])
		if in {
			size++
		}
		if in && w.score[i] < 0 {
			keptNeg++
		}
		if in && !w.mesh[i] {
			added++
			if w.outb[i] {
				addedOutb++
			}
			// (f) nobody ineligible is ever added (backoffs that clearBackoff may just have dropped are
			// excluded from the assertion: they expired more than 2 heartbeats ago)
			cleared := w.hasBO[i] && (ticks0+1)%15 == 0 && w.boExp[i].Add(2*GossipSubHeartbeatInterval).Before(w.now)
			vpAssert(w.inTopic[i] && w.capable(i) && !w.direct[i] && (!w.hasBO[i] || cleared) && w.score[i] >= 0, "heartbeat never grafts a peer that is direct, backed off, negatively scored, not mesh-capable or not in the topic")
			vpAssert(wire.graft == 1, "every peer the heartbeat adds is sent a GRAFT")
		} else {
			vpAssert(wire.graft == 0, "no GRAFT to peers that were not added")
		}
		if !in && w.mesh[i] {
			removed++
			vpAssert(wire.prune == 1, "every still-connected peer the heartbeat removes is sent a PRUNE")
			exp, ok := gs.backoff[vpT0][p]
			vpAssert(ok && !exp.Before(w.now.Add(params.PruneBackoff)), "a pruned peer is backed off for the prune backoff")
			if w.score[i] < 0 {
				vpAssert(wire.prunePX == 0, "a negatively scored peer is pruned without peer exchange")
			}
		} else {
			vpAssert(wire.prune == 0, "no PRUNE to peers that were not removed")
		}
	}
	vpAssert(keptNeg == 0, "after a heartbeat the mesh contains no peer with negative score")
	// candidate count for (b)
	cand := 0
	for i := range w.peers {
		cleared := w.hasBO[i] && (ticks0+1)%15 == 0 && w.boExp[i].Add(2*GossipSubHeartbeatInterval).Before(w.now)
		if w.inTopic[i] && w.capable(i) && !w.mesh[i] && !w.direct[i] && (!w.hasBO[i] || cleared) && w.score[i] >= 0 {
			cand++
		}
	}
	og := (ticks0+1)%params.OpportunisticGraftTicks == 0
	switch {
	case m1 < Dlo:
		want := D - m1
		if cand < want {
			want = cand
		}
		// under-subscription: grown to D, or by all eligible candidates if fewer (later phases may add a few more)
		vpAssert(added >= want, "an under-subscribed mesh grows to D members or by all eligible candidates")
		vpAssert(removed == m0-m1, "an under-subscribed mesh loses only its negatively scored members")
		if Dout == 0 && !og {
			vpAssert(added == want, "an under-subscribed mesh grows to exactly D (no outbound quota, no opportunistic graft this tick)")
		}
	case m1 >= Dhi:
		// over-subscription: cut back to D before the small outbound-quota / opportunistic additions
		vpAssert(size-added == D, "an over-subscribed mesh is cut back to D")
		if Dscore+Dout <= D {
			// every pruned non-negative member is outscored-or-equalled by at least Dscore kept members
			for i := range w.peers {
				if w.mesh[i] && w.score[i] >= 0 && !w.inMeshNow(i) {
					better := 0
					for j := range w.peers {
						if w.mesh[j] && w.inMeshNow(j) && w.score[j] >= w.score[i] {
							better++
						}
					}
					vpAssert(better >= Dscore, "over-subscription keeps the Dscore best-scoring members")
				}
			}
			outAvail, outKept := 0, 0
			for i := range w.peers {
				if w.mesh[i] && w.score[i] >= 0 && w.outb[i] {
					outAvail++
					if w.inMeshNow(i) {
						outKept++
					}
				}
			}
			wantOut := Dout
			if outAvail < wantOut {
				wantOut = outAvail
			}
			vpAssert(outKept >= wantOut, "over-subscription keeps at least Dout outbound members when available")
		}
	default:
		vpAssert(removed == m0-m1, "a mesh within bounds loses only its negatively scored members")
		if Dout == 0 && !og {
			vpAssert(added == 0, "a mesh within bounds is left alone (no outbound quota, no opportunistic graft this tick)")
		}
	}
	if !og {
		vpAssert(added-addedOutb <= maxInt(0, D-m1), "outside opportunistic ticks, additions beyond the under-subscription refill are outbound peers only")
	}
	w.assertInv(true)
	if Dlo > 0 && P > D && !allInMesh {
		vpCover(m1 < Dlo && cand > D-m1, "under-subscribed with spare candidates")
	}
	if Dhi <= P {
		vpCover(m1 >= Dhi && removed > 0, "over-subscribed and cut")
	}
	if !allInMesh {
		vpCover(m0 > m1, "negative member pruned")
	}
	if allInMesh {
		return
	}
	if Dout > 0 && Dlo <= P {
		vpCover(m1 >= Dlo && m1 < Dhi && added > 0 && !og, "outbound quota refilled in a mesh that is within bounds")
	}
}

func maxInt(a, b int) int {
	if a > b {
		return a
	}
	return b
}

func vpParamsTuple(D, Dlo, Dhi, Dscore, Dout int) GossipSubParams {
	p := vpSmallParams()
	p.D, p.Dlo, p.Dhi, p.Dscore, p.Dout = D, Dlo, Dhi, Dscore, Dout
	p.OpportunisticGraftTicks = 2
	p.OpportunisticGraftPeers = 1
	p.Dlazy = 1
	return p
}

func vpH_C07_heartbeat_a() { vpOpt("unwind", 10); vpHeartbeatStep(3, vpParamsTuple(2, 1, 3, 1, 0), 0) }
func vpHT_C07_heartbeat_b() { vpOpt("unwind", 10); vpHeartbeatStep(3, vpParamsTuple(2, 2, 3, 2, 0), 1) }
func vpHT_C07_heartbeat_p4a() { vpOpt("unwind", 10); vpHeartbeatStep(4, vpParamsTuple(2, 1, 3, 1, 0), 0) }
func vpHT_C07_heartbeat_p4b() { vpOpt("unwind", 10); vpHeartbeatStep(4, vpParamsTuple(2, 2, 3, 2, 0), 1) }
// (P=5 with (4,2,4,1,1) was tried: 578k terms, the solver does not even decide satisfiability of the assumptions in 600 s — outside)
// outbound quota: Dout=1 with a mesh that is within [Dlo,Dhi) — the step "do we have enough outbound peers?" runs alone
func vpH_C07_heartbeat_out() { vpOpt("unwind", 10); vpHeartbeatStep(3, vpParamsTuple(4, 2, 4, 1, 1), 0) }
// over-subscription WITH an outbound quota (Dout >= 1 needs D >= 4, Dout >= 2 needs D >= 6, so the cut needs meshes of 5
// and 7): membership and scores CONCRETE (every peer is a mesh member; peer i scores P-i, so the sort is concrete), ONE
// outcome of the two shuffles (identity) - and the connection DIRECTION of every peer symbolic: since the peers differ
// in nothing else, every pattern of outbound / inbound over the sorted positions (all 2^5 resp. 2^7) is inside: the cut
// to D keeps the best Dscore and rotates outbound members in until min(Dout, available) of them are kept.
// (With symbolic scores or "any permutation" the same harness did not finish: 50 minutes / 16 minutes of evaluation.)
func vpH_C07_heartbeat_cut5() {
	vpOpt("unwind", 12)
	vpOpt("idshuffle", 1)
	vpOpt("native", 0) // (a native run draws its own shuffle: counterexamples are confirmed by concrete re-execution in the engine)
	vpHeartbeatStepX(5, vpParamsTuple(4, 2, 4, 1, 1), 0, true)
}
func vpH_C07_heartbeat_cut7() {
	vpOpt("unwind", 12)
	vpOpt("idshuffle", 1)
	vpOpt("native", 0)
	vpHeartbeatStepX(7, vpParamsTuple(6, 3, 6, 1, 2), 0, true)
}
func vpH_C07_heartbeat_zero() { vpOpt("unwind", 10); vpHeartbeatStep(3, vpParamsTuple(0, 0, 0, 0, 0), 0) }

// graftprune: the heartbeat's coalescing sender. Arbitrary per-peer GRAFT and PRUNE topic lists over two topics (a peer
// may be grafted into one mesh and pruned from another in the same heartbeat): every peer is told exactly its GRAFTs
// and PRUNEs, once each.
func vpH_C07_graftprune() {
	vpOpt("unwind", 8)
	params := vpSmallParams()
	nd := vpNewNode("self", vpNodeCfg{router: "gossipsub", params: &params, doPX: true})
	gs := nd.gs
	peers := []peer.ID{"p0", "p1", "p2"}
	qs := []*rpcQueue{}
	for _, p := range peers {
		qs = append(qs, nd.vpAddPeer(p, GossipSubID_v11, true))
	}
	topics := []string{vpT0, "t1"}
	tograft, toprune, noPX := map[peer.ID][]string{}, map[peer.ID][]string{}, map[peer.ID]bool{}
	var act [3][2]int // per peer and topic: 0 nothing, 1 graft, 2 prune
	for i, p := range peers {
		for t := range topics {
			a := vpInt("action", 0, 2)
			act[i][t] = a
			switch a {
			case 1:
				tograft[p] = append(tograft[p], topics[t])
			case 2:
				toprune[p] = append(toprune[p], topics[t])
			}
		}
		if vpBool("no_px") {
			noPX[p] = true
		}
	}
	gs.sendGraftPrune(tograft, toprune, noPX)
	for i := range peers {
		var g, pr [2]int
		nb := 0
		for _, r := range vpDrain(qs[i]) {
			for _, x := range r.GetControl().GetGraft() {
				for t := range topics {
					if x.GetTopicID() == topics[t] {
						g[t]++
					}
				}
			}
			for _, x := range r.GetControl().GetPrune() {
				for t := range topics {
					if x.GetTopicID() == topics[t] {
						pr[t]++
						if x.Backoff != nil && x.GetBackoff() == uint64(gs.params.PruneBackoff/time.Second) {
							nb++
						}
					}
				}
			}
		}
		for t := range topics {
			wg, wp := 0, 0
			if act[i][t] == 1 {
				wg = 1
			}
			if act[i][t] == 2 {
				wp = 1
			}
			vpAssert(g[t] == wg, "a peer is sent exactly one GRAFT for each mesh it was added to and none otherwise")
			vpAssert(pr[t] == wp, "a peer is sent exactly one PRUNE for each mesh it was removed from and none otherwise, also when it is grafted elsewhere in the same heartbeat")
		}
		vpAssert(nb == pr[0]+pr[1], "every PRUNE carries the prune backoff")
	}
	vpCover(act[0][0] == 1 && act[0][1] == 2, "grafted into one mesh and pruned from another in the same heartbeat")
}
