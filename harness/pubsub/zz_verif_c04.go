//go:build verif

package pubsub

import (
	"context"

	pb "github.com/libp2p/go-libp2p-pubsub/pb"
	"github.com/libp2p/go-libp2p/core/peer"
)

// ---- C04: validator verdicts decide delivery, forwarding and penalties (and the C02 accept-once gate) ----

func (t *vpRecTracer) rejectReasons() []string {
	var out []string
	for _, e := range t.evts {
		if e.typ == pb.TraceEvent_REJECT_MESSAGE {
			out = append(out, e.topic)
		}
	}
	return out
}

// vpVerdictOracle: the outcome class prescribed by the statement (DESIGN.md Appendix C).
// classes: 0 accept, 1 reject, 2 throttled, 3 ignored
func vpVerdictOracle(n int, verdict []int, inline []bool, thr []bool, globalThr, sync bool) int {
	norm := func(r int) int {
		if r == int(ValidationAccept) || r == int(ValidationReject) || r == int(ValidationIgnore) {
			return r
		}
		return int(ValidationIgnore)
	}
	ign := false
	nAsync := 0
	for i := 0; i < n; i++ {
		if inline[i] || sync {
			if norm(verdict[i]) == int(ValidationReject) {
				return 1 // later inline validators do not even run
			}
			if norm(verdict[i]) == int(ValidationIgnore) {
				ign = true
			}
		} else {
			nAsync++
		}
	}
	if nAsync == 0 {
		if ign {
			return 3
		}
		return 0
	}
	if globalThr {
		return 2
	}
	anyThr, asyncIgn := false, false
	for i := 0; i < n; i++ {
		if inline[i] || sync {
			continue
		}
		if thr[i] {
			anyThr = true
			continue
		}
		if norm(verdict[i]) == int(ValidationReject) {
			return 1
		}
		if norm(verdict[i]) == int(ValidationIgnore) {
			asyncIgn = true
		}
	}
	if anyThr {
		return 2
	}
	if ign || asyncIgn {
		return 3
	}
	return 0
}

func vpPipeline(n int) {
	vpOpt("bagchans", 1)
	nd := vpNewNode("self", vpNodeCfg{router: "floodsub", tracer: true})
	v := nd.ps.val
	v.validateThrottle = make(chan struct{}, 1)
	verdict := make([]int, n)
	inline := make([]bool, n)
	thr := make([]bool, n)
	calls := make([]int, n)
	var vals []*validatorImpl
	for i := 0; i < n; i++ {
		i := i
		verdict[i] = vpInt("verdict", -1, 3) // Accept=0, Reject=1, Ignore=2, out-of-range -1 and 3
		inline[i] = vpBool("inline")
		thr[i] = vpBool("validator_throttle_full")
		val, err := v.makeValidator(&addValReq{topic: vpT0, validate: func(ctx context.Context, p peer.ID, m *Message) ValidationResult {
			calls[i]++
			return ValidationResult(verdict[i])
		}}, nd.ps.logger)
		vpAssume(err == nil)
		val.validateInline = inline[i]
		val.validateThrottle = make(chan struct{}, 1)
		if thr[i] {
			val.validateThrottle <- struct{}{}
		}
		vals = append(vals, val)
	}
	globalThr := vpBool("global_throttle_full")
	if globalThr {
		v.validateThrottle <- struct{}{}
	}
	sync := vpBool("local_publish")
	seenBefore := vpBool("id_already_seen")
	msg := vpMkMsg("A", "1", vpT0)
	msg.ReceivedFrom = "p0"
	if seenBefore {
		nd.ps.markSeen(nd.ps.idGen.ID(msg))
	}
	valid := 0
	err := v.validate(vals, "p0", msg, sync, func(*Message) error { valid++; return nil })
	vpFireAll() // asynchronous stage (all completion orders: result channels are bags)
	reasons := nd.tr.rejectReasons()
	total := 0
	for i := 0; i < n; i++ {
		total += calls[i]
		vpAssert(calls[i] <= 1, "a validator is invoked at most once per message")
	}
	if seenBefore {
		// C02 gate
		vpAssert(total == 0 && valid == 0, "an already seen ID reaches neither the validators nor delivery")
		_, isDupe := err.(dupeErr)
		vpAssert(isDupe && len(reasons) == 0 && nd.tr.count(pb.TraceEvent_DUPLICATE_MESSAGE) == 1, "an already seen ID is reported as a duplicate and nothing else happens")
		return
	}
	want := vpVerdictOracle(n, verdict, inline, thr, globalThr, sync)
	switch want {
	case 0:
		vpAssert(valid == 1 && len(reasons) == 0, "all applicable validators accepted: the message is released exactly once and not rejected")
	case 1:
		vpAssert(valid == 0 && len(reasons) == 1 && reasons[0] == RejectValidationFailed, "a Reject from any validator drops the message with reason 'validation failed' (penalised)")
	case 2:
		vpAssert(valid == 0 && len(reasons) == 1 && reasons[0] == RejectValidationThrottled, "throttled validation drops the message without penalty")
	case 3:
		vpAssert(valid == 0 && len(reasons) == 1 && reasons[0] == RejectValidationIgnored, "Ignore (or an unknown verdict) drops the message without penalty")
	}
	if sync {
		vpAssert((err == nil) == (want == 0), "a locally published message that fails validation makes the call return an error")
	}
	vpCover(want == 1 && !sync && !inline[0] && total == n, "asynchronous reject with every validator run")
	vpCover(want == 2, "throttled")
	vpCover(want == 3 && inline[0] && !inline[1] && verdict[0] == int(ValidationIgnore) && !sync, "inline Ignore carried into the asynchronous stage")
	vpCover(want == 0 && !sync && !inline[0] && !inline[1], "asynchronous accept")
}

func vpH_C04_pipeline2() { vpPipeline(2) }
func vpH_C04_pipeline3() { vpPipeline(3) }

// penalty: the real peerScore.RejectMessage / DuplicateMessage penalise the source AND every peer that
// forwarded a copy exactly for real rejections; Ignore / throttled / queue-full / blacklist never penalise.
func vpH_C04_penalty() {
	params := &PeerScoreParams{
		AppSpecificScore: func(peer.ID) float64 { return 0 },
		DecayInterval:    1000000000, DecayToZero: 0.01,
		Topics: map[string]*TopicScoreParams{vpT0: {TopicWeight: 1, TimeInMeshQuantum: 1000000000, InvalidMessageDeliveriesWeight: -1, InvalidMessageDeliveriesDecay: 0.5}},
	}
	vpAssume(params.validate() == nil)
	ps := newPeerScore(params, nil)
	ps.idGen = newMsgIdGenerator()
	peers := []peer.ID{"p0", "p1", "p2"}
	for _, p := range peers {
		ps.peerStats[p] = &peerStats{connected: true, topics: map[string]*topicStats{}}
	}
	inv := func(p peer.ID) float64 {
		if ts, ok := ps.peerStats[p].topics[vpT0]; ok {
			return ts.invalidMessageDeliveries
		}
		return 0
	}
	reasons := []string{RejectMissingSignature, RejectInvalidSignature, RejectUnexpectedSignature, RejectUnexpectedAuthInfo, RejectSelfOrigin,
		RejectBlacklstedPeer, RejectBlacklistedSource, RejectValidationQueueFull, RejectValidationThrottled, RejectValidationFailed, RejectValidationIgnored}
	reason := reasons[vpInt("reason", 0, len(reasons)-1)]
	msg := vpMkMsg("A", "1", vpT0)
	msg.ReceivedFrom = "p0"
	entered := vpBool("entered_validation") // ValidateMessage traced before (the message got into the pipeline)
	dupBefore := vpBool("duplicate_from_p1_during_validation")
	dupAfter := vpBool("duplicate_from_p2_after_verdict")
	pre := reason == RejectValidationThrottled || reason == RejectValidationFailed || reason == RejectValidationIgnored
	vpAssume(entered == pre) // signature/policy/blacklist/queue-full rejections happen before validation starts
	if entered {
		ps.ValidateMessage(msg)
	}
	if dupBefore && entered {
		d := vpMkMsg("A", "1", vpT0)
		d.ReceivedFrom = "p1"
		ps.DuplicateMessage(d)
	}
	ps.RejectMessage(msg, reason)
	if dupAfter && entered {
		d := vpMkMsg("A", "1", vpT0)
		d.ReceivedFrom = "p2"
		ps.DuplicateMessage(d)
	}
	real := reason == RejectValidationFailed || reason == RejectMissingSignature || reason == RejectInvalidSignature ||
		reason == RejectUnexpectedSignature || reason == RejectUnexpectedAuthInfo || reason == RejectSelfOrigin
	if real {
		vpAssert(inv("p0") == 1, "a real rejection penalises the peer the message came from exactly once")
	} else {
		vpAssert(inv("p0") == 0, "Ignore, throttling, queue-full and blacklist rejections do not penalise the source")
	}
	if reason == RejectValidationFailed {
		vpAssert((inv("p1") == 1) == dupBefore, "every peer that forwarded a copy during validation is penalised when the message is rejected")
		vpAssert((inv("p2") == 1) == dupAfter, "a peer forwarding a copy of a message already known to be invalid is penalised")
	} else {
		vpAssert(inv("p1") == 0 && inv("p2") == 0, "forwarders are penalised only for messages rejected by validation")
	}
	vpCover(reason == RejectValidationFailed && dupBefore && dupAfter, "reject with forwarders before and after")
	vpCover(reason == RejectValidationIgnored && dupBefore, "ignored with a forwarder")
}

// C02 gate (accept-once): the same pipeline harness is part of the C02 check: an ID that is already seen reaches
// neither the validators nor delivery, for remote and local origin alike.
func vpH_C02_gate() { vpPipeline(2) }

// seen_sync: the synchronous path (no validators, no signature check): K=3 arrivals of messages drawn from two IDs, in one
// RPC or several, from two forwarders; each ID is delivered to the subscription, traced as delivered and forwarded at
// most once — exactly once if it arrived at all.
func vpH_C02_seen_sync() {
	vpOpt("unwind", 24)
	nd := vpNewNode("self", vpNodeCfg{router: "floodsub", tracer: true})
	ps := nd.ps
	sub := &Subscription{topic: vpT0, ch: make(chan *Message, 8), ctx: ps.ctx}
	ps.handleAddSubscription(&addSubReq{sub: sub, resp: make(chan *Subscription, 1)})
	nd.vpAddPeer("p0", FloodSubID, true)
	nd.vpAddPeer("p1", FloodSubID, true)
	qo := nd.vpAddPeer("obs", FloodSubID, true)
	ps.handleIncomingRPC(vpSubRPC("obs", vpT0, true))
	nd.tr.evts = nil
	topic := vpT0
	mk := func(k int) *pb.Message {
		return &pb.Message{From: []byte("A"), Seqno: []byte([]string{"1", "2"}[k]), Data: []byte("x"), Topic: &topic}
	}
	var arrived [2]bool
	ids := []int{vpInt("id", 0, 1), vpInt("id", 0, 1), vpInt("id", 0, 1)}
	oneRPC := vpBool("first_two_in_one_rpc")
	f0, f1 := []peer.ID{"p0", "p1"}[vpInt("forwarder", 0, 1)], []peer.ID{"p0", "p1"}[vpInt("forwarder", 0, 1)]
	if oneRPC {
		ps.handleIncomingRPC(&RPC{RPC: pb.RPC{Publish: []*pb.Message{mk(ids[0]), mk(ids[1])}}, from: f0})
	} else {
		ps.handleIncomingRPC(&RPC{RPC: pb.RPC{Publish: []*pb.Message{mk(ids[0])}}, from: f0})
		ps.handleIncomingRPC(&RPC{RPC: pb.RPC{Publish: []*pb.Message{mk(ids[1])}}, from: f1})
	}
	ps.handleIncomingRPC(&RPC{RPC: pb.RPC{Publish: []*pb.Message{mk(ids[2])}}, from: f1})
	for _, k := range ids {
		arrived[k] = true
	}
	var got, fwd [2]int
	for len(sub.ch) > 0 {
		m := <-sub.ch
		for k := 0; k < 2; k++ {
			if string(m.GetSeqno()) == []string{"1", "2"}[k] {
				got[k]++
			}
		}
	}
	for _, r := range vpDrain(qo) {
		for _, m := range r.Publish {
			for k := 0; k < 2; k++ {
				if string(m.GetSeqno()) == []string{"1", "2"}[k] {
					fwd[k]++
				}
			}
		}
	}
	want := 0
	for k := 0; k < 2; k++ {
		w := 0
		if arrived[k] {
			w = 1
		}
		want += w
		vpAssert(got[k] == w, "each message ID is delivered to a subscription exactly once however many copies arrive")
		vpAssert(fwd[k] == w, "each message ID is forwarded to a topic peer exactly once however many copies arrive")
	}
	// (a second copy inside the SAME RPC passes shouldPush before the first is marked seen and is then dropped by markSeen
	// without a DUPLICATE_MESSAGE trace — no clause of the statement asks for one)
	vpAssert(nd.tr.count(pb.TraceEvent_DELIVER_MESSAGE) == want && nd.tr.count(pb.TraceEvent_DUPLICATE_MESSAGE) <= 3-want, "one DELIVER_MESSAGE per ID however many copies arrive")
	vpCover(oneRPC && ids[0] == ids[1], "two copies of one ID in the same RPC")
	vpCover(want == 2, "both IDs arrived")
}

// applicable: the validators that judge a message are EXACTLY the default validators (in registration order) plus the
// validator of the message's own topic, and the list computed for one message is not disturbed by computing the list
// for a later message of another topic (a message waits in the validation queue with its list while others are
// pushed). The number of default validators (0..3: the backing arrays that append produces have spare capacity for 3)
// is a solver variable; validators are installed the way the options install them (append).
func vpH_C04_applicable() {
	vpOpt("gocap", 1) // (capacities as the gc runtime grows them: spare capacity, hence possible aliasing, exactly where it exists natively)
	nd := vpNewNode("self", vpNodeCfg{router: "floodsub"})
	ps := nd.ps
	mk := func(topic string) *validatorImpl {
		v, err := ps.val.makeValidator(&addValReq{topic: topic, validate: func(ctx context.Context, p peer.ID, m *Message) ValidationResult {
			return ValidationAccept
		}}, ps.logger)
		vpAssume(err == nil)
		return v
	}
	nDef := vpInt("default_validators", 0, 3)
	defs := []*validatorImpl{mk(""), mk(""), mk("")}
	for i := 0; i < 3; i++ {
		if i < nDef {
			ps.val.defaultVals = append(ps.val.defaultVals, defs[i])
		}
	}
	va, vb := mk("ta"), mk("tb")
	ps.val.topicVals["ta"] = va
	if vpBool("second_topic_has_a_validator") {
		ps.val.topicVals["tb"] = vb
	}
	ma, mb, mc := vpMkMsg("A", "1", "ta"), vpMkMsg("A", "2", "tb"), vpMkMsg("A", "3", "tc")
	la := ps.val.getValidators(ma) // (queued with the message)
	lb := ps.val.getValidators(mb)
	lc := ps.val.getValidators(mc)
	check := func(l []*validatorImpl, own *validatorImpl, has bool, what string) {
		want := nDef
		if has {
			want++
		}
		vpAssert(len(l) == want, "a message is judged by all default validators plus its own topic's validator, nothing else ("+what+")")
		for i := 0; i < 3; i++ {
			if i < nDef && i < len(l) {
				vpAssert(l[i] == defs[i], "default validators come first, in registration order ("+what+")")
			}
		}
		if has && len(l) == want {
			vpAssert(l[nDef] == own, "the topic validator that judges a message is the one registered for the message's own topic, also after lists for other topics were computed ("+what+")")
		}
	}
	_, hasB := ps.val.topicVals["tb"]
	check(la, va, true, "first message")
	check(lb, vb, hasB, "second message")
	check(lc, nil, false, "topic without validator")
	vpCover(nDef == 3 && hasB, "three default validators and two topic validators")
	vpCover(nDef == 0, "no default validator")
}
