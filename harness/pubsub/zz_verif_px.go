//go:build verif

package pubsub

import (
	"bytes"
	"errors"

	pb "github.com/libp2p/go-libp2p-pubsub/pb"
	"github.com/libp2p/go-libp2p/core/crypto"
	"github.com/libp2p/go-libp2p/core/peer"
	"github.com/libp2p/go-libp2p/core/record"
)

// ---------------------------------------------------------------------------------------------------
// Signed peer records for peer exchange. The cryptography of record.ConsumeEnvelope is uninterpreted: in the engine an
// envelope is a TAGGED byte string (kind byte + the peer ID the record names) and vpModel_ConsumeEnvelope — evaluated in
// place of the real function — maps the tag to one of the outcome classes {invalid envelope, valid envelope carrying a
// PeerRecord for the named peer, valid envelope carrying a record of ANOTHER registered type}. Natively the same inputs
// are realised with really signed envelopes (ed25519 keys, a second record type registered under the peer-record
// domain), so counterexamples replay against the real record package.

const (
	vpEnvGarbage = 'G' // bytes that do not decode / verify
	vpEnvPeerRec = 'P' // validly signed envelope with a PeerRecord naming the given peer
	vpEnvBogus   = 'B' // validly signed envelope under the peer-record domain whose payload is another record type
)

type vpBogusRecord struct{}

func (*vpBogusRecord) Domain() string                 { return peer.PeerRecordEnvelopeDomain }
func (*vpBogusRecord) Codec() []byte                  { return []byte{0x7f, 0x01} }
func (*vpBogusRecord) MarshalRecord() ([]byte, error) { return []byte("bogus"), nil }
func (*vpBogusRecord) UnmarshalRecord([]byte) error   { return nil }

func init() {
	if !vpSymbolic() {
		record.RegisterType(&vpBogusRecord{})
	}
}

var errVpBadEnvelope = errors.New("invalid envelope")

// vpModel_ConsumeEnvelope is evaluated by the engine in place of record.ConsumeEnvelope (never called natively).
func vpModel_ConsumeEnvelope(data []byte, domain string) (*record.Envelope, record.Record, error) {
	if len(data) == 0 {
		return nil, nil, errVpBadEnvelope
	}
	switch data[0] {
	case vpEnvPeerRec:
		return &record.Envelope{}, &peer.PeerRecord{PeerID: peer.ID(data[1:]), Seq: 1}, nil
	case vpEnvBogus:
		return &record.Envelope{}, &vpBogusRecord{}, nil
	}
	return nil, nil, errVpBadEnvelope
}

// vpPXPeer names the k-th peer that is only known through peer exchange (natively a real key-derived peer ID, which a
// PeerRecord needs in order to round-trip).
func vpPXPeer(k int) peer.ID {
	if vpSymbolic() {
		return peer.ID([]string{"x0", "x1", "x2", "x3"}[k])
	}
	_, pub, err := crypto.GenerateEd25519Key(bytes.NewReader(bytes.Repeat([]byte{byte(k + 1)}, 64)))
	if err != nil {
		panic(err)
	}
	id, err := peer.IDFromPublicKey(pub)
	if err != nil {
		panic(err)
	}
	return id
}

// vpEnvelope builds the bytes of a signed-peer-record field of the given outcome class.
func vpEnvelope(kind byte, names peer.ID) []byte {
	if vpSymbolic() {
		return append([]byte{kind}, []byte(names)...)
	}
	priv, _, err := crypto.GenerateEd25519Key(bytes.NewReader(bytes.Repeat([]byte{0x42}, 64)))
	if err != nil {
		panic(err)
	}
	var rec record.Record
	switch kind {
	case vpEnvPeerRec:
		rec = &peer.PeerRecord{PeerID: names, Seq: 1}
	case vpEnvBogus:
		rec = &vpBogusRecord{}
	default:
		return []byte{0xff, 0x00, 0x13}
	}
	env, err := record.Seal(rec, priv)
	if err != nil {
		panic(err)
	}
	b, err := env.Marshal()
	if err != nil {
		panic(err)
	}
	return b
}

// vpPXInfo is one peer-exchange entry: peer `about`, with no record (kind 0) or a record of the given class naming `names`.
func vpPXInfo(about peer.ID, kind byte, names peer.ID) *pb.PeerInfo {
	pi := &pb.PeerInfo{PeerID: []byte(about)}
	if kind != 0 {
		pi.SignedPeerRecord = vpEnvelope(kind, names)
	}
	return pi
}
