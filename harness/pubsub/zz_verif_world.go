//go:build verif

package pubsub

import (
	"time"

	pb "github.com/libp2p/go-libp2p-pubsub/pb"
	"github.com/libp2p/go-libp2p/core/peer"
)

// ---------------------------------------------------------------------------------------------------
// vpWorld: an ARBITRARY gossipsub router state over a bounded universe (P peers, one topic "t0"),
// used by the step-inductive harnesses: every membership bit, protocol, direction, score, backoff
// expiry is a solver variable; the state is built on a node made by the real constructors and
// satisfies the representation invariant of DESIGN.md Appendix B by construction:
//   mesh[t] ⊆ connected peers, mesh exists iff joined, fanout only when not joined,
//   fanout members are connected and mesh-capable, gs.peers ⊆ p.peers, outbound defined for gs.peers.

const vpT0 = "t0"

type vpWorld struct {
	n        *vpNode
	P        int
	peers    []peer.ID
	q        []*rpcQueue
	up       []bool // outbound stream established: in p.peers and gs.peers
	proto    []int  // index into vpProtos
	outb     []bool
	inTopic  []bool // peer announced interest in t0
	direct   []bool
	mesh     []bool
	fanout   []bool
	hasBO    []bool
	boExp    []time.Time
	score    []float64
	scoreOf  map[peer.ID]float64
	joined   bool
	now      time.Time
}

type vpWorldCfg struct {
	P        int
	params   GossipSubParams
	scoring  bool // symbolic scores and thresholds through the real peerScore
	direct   bool // allow direct peers
	doPX     bool
	flood    bool
	tracer   bool
	queue    int
	noFanout bool
	fixedThresholds *PeerScoreThresholds
	symThresholds   bool // thresholds are solver variables accepted by the real validation
	opts            []Option
	concreteScores  bool // scores are the concrete distinct values P, P-1, ..., 1 (peer i scores P-i): sorting by score is then concrete
	allInMesh       bool // membership concrete: every peer is a connected v1.1 topic member in the mesh, not direct, not backed off; only scores and connection directions stay symbolic
}

func vpPeerName(i int) peer.ID { return peer.ID([]string{"p0", "p1", "p2", "p3", "p4", "p5", "p6"}[i]) }

func vpNewWorld(c vpWorldCfg) *vpWorld {
	w := &vpWorld{P: c.P, scoreOf: map[peer.ID]float64{}}
	cfg := vpNodeCfg{router: "gossipsub", params: &c.params, tracer: c.tracer, doPX: c.doPX, flood: c.flood, queue: c.queue, opts: c.opts}
	if c.scoring {
		cfg.score = &PeerScoreParams{
			AppSpecificScore:  func(p peer.ID) float64 { return w.scoreOf[p] },
			AppSpecificWeight: 1,
			DecayInterval:     time.Second,
			DecayToZero:       0.01,
			Topics:            map[string]*TopicScoreParams{},
		}
		// the constructor gets concrete valid thresholds; symbolic ones are installed afterwards under the
		// assumption that the REAL validation accepts them, so that no path condition of the validation
		// code leaks into every guard of the run
		cfg.thresh = &PeerScoreThresholds{GossipThreshold: -10, PublishThreshold: -20, GraylistThreshold: -30, AcceptPXThreshold: 10, OpportunisticGraftThreshold: 5}
		if c.fixedThresholds != nil {
			cfg.thresh = c.fixedThresholds
		}
	}
	w.n = vpNewNode("self", cfg)
	n := w.n
	gs := n.gs
	if c.scoring && c.symThresholds {
		thr := &PeerScoreThresholds{
			SkipAtomicValidation:        vpBool("thresholds_skip_atomic"),
			GossipThreshold:             vpFloat("gossipThreshold"),
			PublishThreshold:            vpFloat("publishThreshold"),
			GraylistThreshold:           vpFloat("graylistThreshold"),
			AcceptPXThreshold:           vpFloat("acceptPXThreshold"),
			OpportunisticGraftThreshold: vpFloat("opportunisticGraftThreshold"),
		}
		vpAssume(thr.validate() == nil)
		gs.gossipThreshold, gs.publishThreshold, gs.graylistThreshold = thr.GossipThreshold, thr.PublishThreshold, thr.GraylistThreshold
		gs.acceptPXThreshold, gs.opportunisticGraftThreshold = thr.AcceptPXThreshold, thr.OpportunisticGraftThreshold
	}
	w.now = time.Now()
	w.joined = vpBool("joined")
	if c.allInMesh {
		w.joined = true
	}
	tm := map[peer.ID]peerTopicState{}
	n.ps.topics[vpT0] = tm
	var meshMap, fanMap map[peer.ID]struct{}
	if w.joined {
		meshMap = map[peer.ID]struct{}{}
		gs.mesh[vpT0] = meshMap
	} else if !c.noFanout && vpBool("has_fanout") {
		fanMap = map[peer.ID]struct{}{}
		gs.fanout[vpT0] = fanMap
		gs.lastpub[vpT0] = w.now.UnixNano() - int64(vpInt("lastpub_age", 0, 1<<37))
	}
	bo := map[peer.ID]time.Time{}
	for i := 0; i < c.P; i++ {
		p := vpPeerName(i)
		w.peers = append(w.peers, p)
		// unconditional draws (replay alignment)
		up, proto, outb := vpBool("up"), vpInt("proto", 0, 4), vpBool("outbound")
		inTopic, direct, mesh, fan := vpBool("in_topic"), vpBool("direct"), vpBool("in_mesh"), vpBool("in_fanout")
		hasBO, boOff := vpBool("has_backoff"), vpInt("backoff_off", -(1 << 38), 1<<38)
		sc := 0.0
		if c.scoring {
			sc = vpFloat("score")
			vpAssume(sc == sc && sc < 1e300 && sc > -1e300) // a number, as the real score function yields for valid parameters (C10)
			if c.concreteScores {
				sc = float64(c.P - i)
			}
		}
		direct = direct && c.direct
		if c.allInMesh {
			up, proto, inTopic, direct, mesh, fan, hasBO = true, 2, true, false, true, false, false
		}
		var q *rpcQueue
		if up {
			q = n.vpAddPeer(p, vpProtos[proto], outb)
		}
		capable := proto != 0
		mesh = mesh && up && w.joined
		fan = fan && up && fanMap != nil && capable && !direct
		if inTopic {
			tm[p] = peerTopicState{}
		}
		if direct {
			if gs.direct == nil {
				gs.direct = map[peer.ID]struct{}{}
			}
			gs.direct[p] = struct{}{}
		}
		if mesh {
			meshMap[p] = struct{}{}
		}
		if fan {
			fanMap[p] = struct{}{}
		}
		exp := w.now.Add(time.Duration(boOff))
		if hasBO {
			bo[p] = exp
		}
		if !up {
			sc = 0 // unknown peers score 0
		}
		w.scoreOf[p] = sc
		w.q = append(w.q, q)
		w.up = append(w.up, up)
		w.proto = append(w.proto, proto)
		w.outb = append(w.outb, outb && up)
		w.inTopic = append(w.inTopic, inTopic)
		w.direct = append(w.direct, direct)
		w.mesh = append(w.mesh, mesh)
		w.fanout = append(w.fanout, fan)
		w.hasBO = append(w.hasBO, hasBO)
		w.boExp = append(w.boExp, exp)
		w.score = append(w.score, sc)
	}
	if len(tm) == 0 {
		delete(n.ps.topics, vpT0)
	}
	if len(bo) > 0 {
		gs.backoff[vpT0] = bo
	}
	if fanMap != nil && len(fanMap) == 0 {
		// an empty fanout set is legal (all members left) but keep the common shape too
		if vpBool("drop_empty_fanout") {
			delete(gs.fanout, vpT0)
			delete(gs.lastpub, vpT0)
		}
	}
	// (the set-up puts nothing on the wire: hello packets are handed to the stream, not queued)
	if n.tr != nil {
		n.tr.evts = nil
	}
	return w
}

func (w *vpWorld) capable(i int) bool { return w.proto[i] != 0 && w.up[i] }
func (w *vpWorld) speaksV11(i int) bool { return w.proto[i] >= 2 && w.up[i] }

func (w *vpWorld) inMeshNow(i int) bool {
	_, ok := w.n.gs.mesh[vpT0][w.peers[i]]
	return ok
}

func (w *vpWorld) meshSize0() int {
	c := 0
	for i := range w.peers {
		if w.mesh[i] {
			c++
		}
	}
	return c
}

// vpWire summarises what a peer's queue holds after a step.
type vpWire struct {
	rpcs    int
	graft   int // GRAFTs for t0
	prune   int // PRUNEs for t0
	pruneBackoff []uint64
	prunePX int
	pruneNoBackoff int
	ihave   int // IHAVE messages
	ihaveIDs int
	iwantIDs int
	idontwant int
	msgs    []*pb.Message
}

func vpReadWire(q *rpcQueue) vpWire {
	var w vpWire
	if q == nil {
		return w
	}
	// read the queue in place (urgent class first, as Pop would hand them out); nothing is popped
	q.queueMu.Lock()
	all := append(append([]*RPC{}, q.queue.priority...), q.queue.normal...)
	q.queueMu.Unlock()
	for _, r := range all {
		w.rpcs++
		w.msgs = append(w.msgs, r.Publish...)
		ctl := r.GetControl()
		for _, g := range ctl.GetGraft() {
			if g.GetTopicID() == vpT0 {
				w.graft++
			}
		}
		for _, p := range ctl.GetPrune() {
			if p.GetTopicID() == vpT0 {
				w.prune++
				if p.Backoff != nil {
					w.pruneBackoff = append(w.pruneBackoff, p.GetBackoff())
				} else {
					w.pruneNoBackoff++
				}
				w.prunePX += len(p.GetPeers())
			}
		}
		for _, ih := range ctl.GetIhave() {
			w.ihave++
			w.ihaveIDs += len(ih.GetMessageIDs())
		}
		for _, iw := range ctl.GetIwant() {
			w.iwantIDs += len(iw.GetMessageIDs())
		}
		for _, d := range ctl.GetIdontwant() {
			w.idontwant += len(d.GetMessageIDs())
		}
	}
	return w
}

func vpGraftCtl(topic string) *pb.ControlMessage {
	return &pb.ControlMessage{Graft: []*pb.ControlGraft{{TopicID: &topic}}}
}

func (w *vpWorld) penalty(i int) float64 {
	ps := w.n.gs.score
	if ps == nil {
		return 0
	}
	st, ok := ps.peerStats[w.peers[i]]
	if !ok {
		return 0
	}
	return st.behaviourPenalty
}
