//go:build verif

package pubsub

import (
	pb "github.com/libp2p/go-libp2p-pubsub/pb"
	"github.com/libp2p/go-libp2p/core/peer"
	"github.com/libp2p/go-libp2p/core/protocol"
)

// ---- C01: complete exactly-once delivery in a connected network of correct nodes ------------------------------
//
// A bounded NETWORK COMPOSITION evaluated symbolically: N real nodes (real PubSub + real router, built by the real
// constructors) in one harness; which links are up, each node's role (two subscriptions / relay only / bystander),
// whether roles are taken before or after connecting, and the publisher are solver variables; transport is a
// deterministic lock-step loop in the harness (every queued RPC is handed to the neighbour's real handleIncomingRPC,
// hello packets first). Asserted: a subscription receives the message exactly once iff it is reachable from the
// publisher through a path whose interior nodes are overlay members (subscribers or relays) — which on a connected
// overlay is "every subscription of every subscriber, exactly once" — and bystanders / relays deliver nothing.

type vpNetNode struct {
	n    *vpNode
	id   peer.ID
	subs []*Subscription
	role int // 0 bystander, 1 subscriber (two subscriptions), 2 relay only
}

type vpMesh struct {
	nodes []*vpNetNode
	link  [][]bool
	q     [][]*rpcQueue // q[i][j]: node i's outbound queue towards j
	proto protocol.ID
}

func (nw *vpMesh) connect(i, j int) {
	a, b := nw.nodes[i], nw.nodes[j]
	nw.q[i][j] = a.n.vpAddPeer(b.id, nw.proto, true)
	nw.q[j][i] = b.n.vpAddPeer(a.id, nw.proto, false)
	// hello packets are the first thing each side hears from the other
	ha, hb := a.n.ps.getHelloPacket(), b.n.ps.getHelloPacket()
	ha.from, hb.from = a.id, b.id
	b.n.ps.handleIncomingRPC(ha)
	a.n.ps.handleIncomingRPC(hb)
}

func (nw *vpMesh) takeRole(i int) {
	nd := nw.nodes[i]
	ps := nd.n.ps
	switch nd.role {
	case 1:
		for k := 0; k < 2; k++ {
			s := &Subscription{topic: vpT0, ch: make(chan *Message, 4), ctx: ps.ctx}
			ps.handleAddSubscription(&addSubReq{sub: s, resp: make(chan *Subscription, 1)})
			nd.subs = append(nd.subs, s)
		}
	case 2:
		ps.handleAddRelay(&addRelayReq{topic: vpT0, resp: make(chan RelayCancelFunc, 1)})
	}
}

// round hands every queued RPC to its destination.
func (nw *vpMesh) round() {
	N := len(nw.nodes)
	for i := 0; i < N; i++ {
		for j := 0; j < N; j++ {
			if i == j || nw.q[i][j] == nil {
				continue
			}
			if !nw.link[i][j] {
				continue
			}
			rs := vpDrain(nw.q[i][j])
			vpAssert(len(rs) <= 3, "harness bound: at most three RPCs are queued on a link per round")
			for k := 0; k < 3; k++ { // (concrete bound: the loop ends syntactically)
				if k < len(rs) {
					c := *rs[k]
					c.from = nw.nodes[i].id
					nw.nodes[j].n.ps.handleIncomingRPC(&c)
				}
			}
		}
	}
}

func vpNetCompose(router string, N int, roles []int) { vpNetComposeX(router, N, roles, -1) }

// order: -1 symbolic, 0 connect first, 1 roles first
func vpNetComposeX(router string, N int, roles []int, order int) {
	vpOpt("unwind", 10)
	vpOpt("feasfrom", 99) // every loop of this harness is syntactically bounded: no solver calls while unrolling
	nw := &vpMesh{proto: FloodSubID}
	if router == "randomsub" {
		nw.proto = RandomSubID
	}
	names := []peer.ID{"n0", "n1", "n2", "n3"}
	for i := 0; i < N; i++ {
		nw.nodes = append(nw.nodes, &vpNetNode{n: vpNewNode(string(names[i]), vpNodeCfg{router: router}), id: names[i], role: roles[i]})
		nw.link = append(nw.link, make([]bool, N))
		nw.q = append(nw.q, make([]*rpcQueue, N))
	}
	for i := 0; i < N; i++ {
		for j := i + 1; j < N; j++ {
			up := vpBool("link_up")
			nw.link[i][j], nw.link[j][i] = up, up
		}
	}
	rolesFirst := vpBool("roles_before_connect")
	if order >= 0 {
		rolesFirst = order == 1
	}
	if rolesFirst {
		for i := 0; i < N; i++ {
			nw.takeRole(i)
		}
	}
	for i := 0; i < N; i++ {
		for j := i + 1; j < N; j++ {
			if nw.link[i][j] {
				nw.connect(i, j)
			}
		}
	}
	if !rolesFirst {
		for i := 0; i < N; i++ {
			nw.takeRole(i)
		}
	}
	nw.round() // announcements propagate (one hop is all interest announcements travel)
	// publication by a symbolic node (subscriber, relay or bystander alike)
	s := vpInt("publisher", 0, N-1)
	for i := 0; i < N; i++ {
		if i == s {
			ps := nw.nodes[i].n.ps
			msg := vpMkMsg(string(nw.nodes[i].id), "1", vpT0)
			msg.ReceivedFrom = nw.nodes[i].id
			err := ps.val.ValidateLocal(msg)
			vpAssert(err == nil, "a valid local publication is accepted")
			ps.publishMessage(msg)
		}
	}
	for k := 0; k < N-1; k++ {
		nw.round()
	}
	// expected reach: from the publisher along up links through overlay members
	member := make([]bool, N)
	for i := 0; i < N; i++ {
		member[i] = nw.nodes[i].role != 0
	}
	reach := make([]bool, N)
	reach[s] = true
	for k := 0; k < N; k++ {
		for i := 0; i < N; i++ {
			for j := 0; j < N; j++ {
				// i forwards (or originates) to j if j announced interest; i must itself be the publisher or a member
				if reach[i] && nw.link[i][j] && member[j] && (i == s || member[i]) {
					reach[j] = true
				}
			}
		}
	}
	connected := true
	for i := 0; i < N; i++ {
		for _, sub := range nw.nodes[i].subs {
			n := len(sub.ch)
			vpAssert(n <= 1, "no subscription receives a message twice")
			vpAssert((n == 1) == reach[i], "a subscription receives the message exactly when its node is reachable from the publisher through overlay members")
		}
		if member[i] && !reach[i] {
			connected = false
		}
	}
	if connected {
		for i := 0; i < N; i++ {
			for _, sub := range nw.nodes[i].subs {
				vpAssert(len(sub.ch) == 1, "on a connected overlay every subscription of every subscriber receives the message exactly once")
			}
		}
	}
	if roles[0] == 1 && roles[1] == 2 && roles[2] == 1 {
		vpCover(connected && s == 0 && !nw.link[0][2], "relay-only cut vertex between two subscribers")
	}
	if roles[0] == 0 && roles[1] == 1 && roles[2] == 1 {
		vpCover(s == 0 && connected, "publisher that neither subscribes nor relays")
	}
}

// Role assignments (0 bystander, 1 subscriber with two subscriptions, 2 relay only) and the order of role taking versus
// connecting are enumerated concretely — merging two different construction sequences multiplies the formula by 30 —
// one harness function per assignment (generated), while links and the publisher stay symbolic: each composition
// covers all 8 link sets x 3 publishers.
func vpH_C01_fs_bbs_c() { vpNetComposeX("floodsub", 3, []int{0, 0, 1}, 0) }
func vpH_C01_fs_bbs_r() { vpNetComposeX("floodsub", 3, []int{0, 0, 1}, 1) }
func vpHT_C01_fs_bbr_c() { vpNetComposeX("floodsub", 3, []int{0, 0, 2}, 0) }
func vpHT_C01_fs_bbr_r() { vpNetComposeX("floodsub", 3, []int{0, 0, 2}, 1) }
func vpH_C01_fs_bsb_c() { vpNetComposeX("floodsub", 3, []int{0, 1, 0}, 0) }
func vpH_C01_fs_bsb_r() { vpNetComposeX("floodsub", 3, []int{0, 1, 0}, 1) }
func vpH_C01_fs_bss_c() { vpNetComposeX("floodsub", 3, []int{0, 1, 1}, 0) }
func vpH_C01_fs_bss_r() { vpNetComposeX("floodsub", 3, []int{0, 1, 1}, 1) }
func vpH_C01_fs_bsr_c() { vpNetComposeX("floodsub", 3, []int{0, 1, 2}, 0) }
func vpH_C01_fs_bsr_r() { vpNetComposeX("floodsub", 3, []int{0, 1, 2}, 1) }
func vpHT_C01_fs_brb_c() { vpNetComposeX("floodsub", 3, []int{0, 2, 0}, 0) }
func vpHT_C01_fs_brb_r() { vpNetComposeX("floodsub", 3, []int{0, 2, 0}, 1) }
func vpH_C01_fs_brs_c() { vpNetComposeX("floodsub", 3, []int{0, 2, 1}, 0) }
func vpH_C01_fs_brs_r() { vpNetComposeX("floodsub", 3, []int{0, 2, 1}, 1) }
func vpHT_C01_fs_brr_c() { vpNetComposeX("floodsub", 3, []int{0, 2, 2}, 0) }
func vpHT_C01_fs_brr_r() { vpNetComposeX("floodsub", 3, []int{0, 2, 2}, 1) }
func vpH_C01_fs_sbb_c() { vpNetComposeX("floodsub", 3, []int{1, 0, 0}, 0) }
func vpH_C01_fs_sbb_r() { vpNetComposeX("floodsub", 3, []int{1, 0, 0}, 1) }
func vpH_C01_fs_sbs_c() { vpNetComposeX("floodsub", 3, []int{1, 0, 1}, 0) }
func vpH_C01_fs_sbs_r() { vpNetComposeX("floodsub", 3, []int{1, 0, 1}, 1) }
func vpH_C01_fs_sbr_c() { vpNetComposeX("floodsub", 3, []int{1, 0, 2}, 0) }
func vpH_C01_fs_sbr_r() { vpNetComposeX("floodsub", 3, []int{1, 0, 2}, 1) }
func vpH_C01_fs_ssb_c() { vpNetComposeX("floodsub", 3, []int{1, 1, 0}, 0) }
func vpH_C01_fs_ssb_r() { vpNetComposeX("floodsub", 3, []int{1, 1, 0}, 1) }
func vpH_C01_fs_sss_c() { vpNetComposeX("floodsub", 3, []int{1, 1, 1}, 0) }
func vpH_C01_fs_sss_r() { vpNetComposeX("floodsub", 3, []int{1, 1, 1}, 1) }
func vpH_C01_fs_ssr_c() { vpNetComposeX("floodsub", 3, []int{1, 1, 2}, 0) }
func vpH_C01_fs_ssr_r() { vpNetComposeX("floodsub", 3, []int{1, 1, 2}, 1) }
func vpH_C01_fs_srb_c() { vpNetComposeX("floodsub", 3, []int{1, 2, 0}, 0) }
func vpH_C01_fs_srb_r() { vpNetComposeX("floodsub", 3, []int{1, 2, 0}, 1) }
func vpH_C01_fs_srs_c() { vpNetComposeX("floodsub", 3, []int{1, 2, 1}, 0) }
func vpH_C01_fs_srs_r() { vpNetComposeX("floodsub", 3, []int{1, 2, 1}, 1) }
func vpH_C01_fs_srr_c() { vpNetComposeX("floodsub", 3, []int{1, 2, 2}, 0) }
func vpH_C01_fs_srr_r() { vpNetComposeX("floodsub", 3, []int{1, 2, 2}, 1) }
func vpHT_C01_fs_rbb_c() { vpNetComposeX("floodsub", 3, []int{2, 0, 0}, 0) }
func vpHT_C01_fs_rbb_r() { vpNetComposeX("floodsub", 3, []int{2, 0, 0}, 1) }
func vpH_C01_fs_rbs_c() { vpNetComposeX("floodsub", 3, []int{2, 0, 1}, 0) }
func vpH_C01_fs_rbs_r() { vpNetComposeX("floodsub", 3, []int{2, 0, 1}, 1) }
func vpHT_C01_fs_rbr_c() { vpNetComposeX("floodsub", 3, []int{2, 0, 2}, 0) }
func vpHT_C01_fs_rbr_r() { vpNetComposeX("floodsub", 3, []int{2, 0, 2}, 1) }
func vpH_C01_fs_rsb_c() { vpNetComposeX("floodsub", 3, []int{2, 1, 0}, 0) }
func vpH_C01_fs_rsb_r() { vpNetComposeX("floodsub", 3, []int{2, 1, 0}, 1) }
func vpH_C01_fs_rss_c() { vpNetComposeX("floodsub", 3, []int{2, 1, 1}, 0) }
func vpH_C01_fs_rss_r() { vpNetComposeX("floodsub", 3, []int{2, 1, 1}, 1) }
func vpH_C01_fs_rsr_c() { vpNetComposeX("floodsub", 3, []int{2, 1, 2}, 0) }
func vpH_C01_fs_rsr_r() { vpNetComposeX("floodsub", 3, []int{2, 1, 2}, 1) }
func vpHT_C01_fs_rrb_c() { vpNetComposeX("floodsub", 3, []int{2, 2, 0}, 0) }
func vpHT_C01_fs_rrb_r() { vpNetComposeX("floodsub", 3, []int{2, 2, 0}, 1) }
func vpH_C01_fs_rrs_c() { vpNetComposeX("floodsub", 3, []int{2, 2, 1}, 0) }
func vpH_C01_fs_rrs_r() { vpNetComposeX("floodsub", 3, []int{2, 2, 1}, 1) }
func vpHT_C01_fs_rrr_c() { vpNetComposeX("floodsub", 3, []int{2, 2, 2}, 0) }
func vpHT_C01_fs_rrr_r() { vpNetComposeX("floodsub", 3, []int{2, 2, 2}, 1) }
func vpH_C01_rs_srs_c() { vpNetComposeX("randomsub", 3, []int{1, 2, 1}, 0) }
func vpH_C01_rs_srs_r() { vpNetComposeX("randomsub", 3, []int{1, 2, 1}, 1) }
func vpH_C01_rs_bss_r() { vpNetComposeX("randomsub", 3, []int{0, 1, 1}, 1) }
func vpH_C01_rs_sss_c() { vpNetComposeX("randomsub", 3, []int{1, 1, 1}, 0) }
func vpH_C01_rs_rss_r() { vpNetComposeX("randomsub", 3, []int{2, 1, 1}, 1) }
func vpH_C01_rs_sbs_c() { vpNetComposeX("randomsub", 3, []int{1, 0, 1}, 0) }

// ---- gossipsub composition (thorough tier): three real gossipsub nodes on a concrete topology, publisher symbolic.
// Mesh formation runs through the real Join / GRAFT exchange / heartbeat, propagation through the real mesh forwarding,
// repair through the real IHAVE / IWANT gossip of a later heartbeat.
func vpNetComposeGS(N int, roles []int, links [][2]int, order int) {
	vpOpt("unwind", 10)
	vpOpt("feasfrom", 99)
	vpOpt("idshuffle", 1) // (with D=2 and at most two neighbours the selections do not depend on the shuffle, only the send order does)
	nw := &vpMesh{proto: GossipSubID_v11}
	names := []peer.ID{"n0", "n1", "n2", "n3"}
	params := vpSmallParams()
	for i := 0; i < N; i++ {
		nw.nodes = append(nw.nodes, &vpNetNode{n: vpNewNode(string(names[i]), vpNodeCfg{router: "gossipsub", params: &params}), id: names[i], role: roles[i]})
		nw.link = append(nw.link, make([]bool, N))
		nw.q = append(nw.q, make([]*rpcQueue, N))
	}
	for _, l := range links {
		nw.link[l[0]][l[1]], nw.link[l[1]][l[0]] = true, true
	}
	if order == 1 {
		for i := 0; i < N; i++ {
			nw.takeRole(i)
		}
	}
	for _, l := range links {
		nw.connect(l[0], l[1])
	}
	if order == 0 {
		for i := 0; i < N; i++ {
			nw.takeRole(i)
		}
	}
	nw.round()
	nw.round()
	for i := 0; i < N; i++ {
		nw.nodes[i].n.gs.heartbeat() // mesh maintenance: under-subscribed meshes are filled
	}
	nw.round()
	nw.round()
	s := vpInt("publisher", 0, N-1)
	for i := 0; i < N; i++ {
		if i == s {
			ps := nw.nodes[i].n.ps
			msg := vpMkMsg(string(nw.nodes[i].id), "1", vpT0)
			msg.ReceivedFrom = nw.nodes[i].id
			err := ps.val.ValidateLocal(msg)
			vpAssert(err == nil, "a valid local publication is accepted")
			ps.publishMessage(msg)
		}
	}
	nw.round()
	nw.round()
	for i := 0; i < N; i++ {
		nw.nodes[i].n.gs.heartbeat() // gossip: IHAVE to non-mesh topic peers
	}
	nw.round() // IHAVE
	nw.round() // IWANT
	nw.round() // payload
	for i := 0; i < N; i++ {
		for _, sub := range nw.nodes[i].subs {
			vpAssert(len(sub.ch) == 1, "gossipsub: on a connected overlay every subscription of every subscriber receives the message exactly once")
		}
		if roles[i] != 1 {
			vpAssert(len(nw.nodes[i].subs) == 0, "no subscriptions on non-subscribers")
		}
	}
	vpCover(s == N-1, "published by the last node")
}

// Shuffles are the identity here (ONE outcome of the random peer selection; with "any permutation" the three-node line
// did not finish in 25 minutes because every later send happens in a symbolic order); topologies and roles concrete,
// the publisher symbolic. (A node with three neighbours — star or complete graph on 4 nodes, D=2 — did not finish in 25
// minutes: outside.)
func vpH_C01_gs_pair_ss_c()    { vpNetComposeGS(2, []int{1, 1}, [][2]int{{0, 1}}, 0) }
func vpH_C01_gs_pair_ss_r()    { vpNetComposeGS(2, []int{1, 1}, [][2]int{{0, 1}}, 1) }
func vpH_C01_gs_line_sss_c()   { vpNetComposeGS(3, []int{1, 1, 1}, [][2]int{{0, 1}, {1, 2}}, 0) }
func vpH_C01_gs_line_sss_r()   { vpNetComposeGS(3, []int{1, 1, 1}, [][2]int{{0, 1}, {1, 2}}, 1) }
func vpH_C01_gs_line_srs_c()   { vpNetComposeGS(3, []int{1, 2, 1}, [][2]int{{0, 1}, {1, 2}}, 0) }
func vpH_C01_gs_line_srs_r()   { vpNetComposeGS(3, []int{1, 2, 1}, [][2]int{{0, 1}, {1, 2}}, 1) }
func vpHT_C01_gs_tri_sss_c()   { vpNetComposeGS(3, []int{1, 1, 1}, [][2]int{{0, 1}, {1, 2}, {0, 2}}, 0) }
func vpH_C01_gs_tri_ssb_r()    { vpNetComposeGS(3, []int{1, 1, 0}, [][2]int{{0, 1}, {1, 2}, {0, 2}}, 1) }
func vpH_C01_gs_line4_ssss_c() { vpNetComposeGS(4, []int{1, 1, 1, 1}, [][2]int{{0, 1}, {1, 2}, {2, 3}}, 0) }
func vpH_C01_gs_line4_srrs_r() { vpNetComposeGS(4, []int{1, 2, 2, 1}, [][2]int{{0, 1}, {1, 2}, {2, 3}}, 1) }

// ---- single-node lemma of the gossip-repair clause (step-inductive): whatever a gossipsub node's per-heartbeat
// flood-protection counters were (ARBITRARY history), after its next heartbeat (1) an IHAVE from a peer at or above the
// gossip threshold that advertises an unseen ID on a joined topic is answered with an IWANT for exactly that ID, and
// (2) the IWANT of such a peer for a message forwarded fewer than HistoryLength heartbeats ago is served. Composed over
// the nodes of a settled network this is the "one round of IHAVE/IWANT gossip" the statement relies on for links that
// are not in the eager-push mesh; a budget that is never replenished (lifetime instead of per-heartbeat) breaks it.
func vpH_C01_gs_repair_step() {
	vpOpt("unwind", 8)
	w := vpNewWorld(vpWorldCfg{P: 1, params: vpGossipParams(), scoring: true, noFanout: true})
	gs, ps := w.n.gs, w.n.ps
	vpAssume(w.up[0] && w.joined)
	p := w.peers[0]
	have0, asked0, dw0 := vpInt("peerhave_pre", 0, 5), vpInt("iasked_pre", 0, 5), vpInt("peerdontwant_pre", 0, 5)
	if have0 > 0 {
		gs.peerhave[p] = have0
	}
	if asked0 > 0 {
		gs.iasked[p] = asked0
	}
	if dw0 > 0 {
		gs.peerdontwant[p] = dw0
	}
	// a message forwarded `age` heartbeats ago
	m := vpMkMsg("A", "1", vpT0)
	m.ReceivedFrom = "self"
	gs.mcache.Put(m)
	age := vpInt("heartbeats_since_forwarded", 0, 3)
	for s := 0; s < 3; s++ {
		if s < age {
			gs.mcache.Shift()
		}
	}
	if vpBool("other_id_seen") {
		ps.markSeen("B7")
	}
	gs.heartbeat()
	vpDrain(w.q[0])
	below := w.score[0] < gs.gossipThreshold
	t := vpT0
	out := gs.handleIHave(p, &pb.ControlMessage{Ihave: []*pb.ControlIHave{{TopicID: &t, MessageIDs: []string{"X9"}}}})
	if below {
		vpAssert(len(out) == 0, "IHAVE from below the gossip threshold is ignored")
	} else {
		vpAssert(len(out) == 1 && len(out[0].GetMessageIDs()) == 1 && out[0].GetMessageIDs()[0] == "X9", "after a heartbeat, an IHAVE for an unseen ID on a joined topic is answered with an IWANT for it, whatever the earlier counters were")
	}
	served := gs.handleIWant(p, &pb.ControlMessage{Iwant: []*pb.ControlIWant{{MessageIDs: []string{"A1"}}}})
	alive := age+1 < gs.params.HistoryLength
	if !below && alive {
		vpAssert(len(served) == 1 && served[0] == m.Message, "an IWANT for a message forwarded fewer than HistoryLength heartbeats ago is served")
	} else {
		vpAssert(len(served) == 0, "nothing is served below the gossip threshold or after HistoryLength heartbeats")
	}
	vpCover(!below && asked0 >= gs.params.MaxIHaveLength, "the IWANT budget of the previous heartbeat was exhausted")
	vpCover(!below && have0 > gs.params.MaxIHaveMessages, "the IHAVE budget of the previous heartbeat was exhausted")
}


// ---- further single-node lemmas the network statement composes from (shared harnesses, run under C01 as well) -------
// forward_step: from an arbitrary router state a publication / forwarded message is queued to every direct peer, every
// floodsub-only peer at the publish threshold and every mesh or fanout member - also by a node that neither subscribes nor
// relays and finds no fanout candidate (mixed-protocol networks: its floodsub neighbours must still get the message).
func vpH_C01_gs_forward_step() { vpH_C06_gs_rpcs() }

// announce_retry: "once interest announcements have propagated" - an announcement that hit a full queue is retried, for
// subscriptions and for relay-only interest alike.
func vpH_C01_announce_retry() { vpH_C05_retry() }

// interest_refcount: "after any subscribe, unsubscribe ... churn that leaves the overlay connected": a node stays an
// announced overlay member exactly while it holds a subscription OR a relay reference - cancelling the last subscription
// of a node that still relays must not withdraw it from the overlay (= C05 refcount, step-inductive).
func vpH_C01_interest_refcount() { vpH_C05_refcount() }
