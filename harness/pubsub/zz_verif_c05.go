//go:build verif

package pubsub

import (
	"context"
	"time"

	pb "github.com/libp2p/go-libp2p-pubsub/pb"
	"github.com/libp2p/go-libp2p/core/peer"
)

// ---- C05: interest announcements converge to the true subscription state ----------------------------------

type vpAnn struct {
	n       int
	sub     bool
	topic   string
}

func vpReadAnnouncements(q *rpcQueue) vpAnn {
	var a vpAnn
	for _, r := range vpDrainPeek(q) {
		for _, s := range r.GetSubscriptions() {
			a.n++
			a.sub = s.GetSubscribe()
			a.topic = s.GetTopicid()
		}
	}
	return a
}

func vpDrainPeek(q *rpcQueue) []*RPC {
	q.queueMu.Lock()
	defer q.queueMu.Unlock()
	return append(append([]*RPC{}, q.queue.priority...), q.queue.normal...)
}

// refcount: from an arbitrary interest state (0..2 subscriptions, 0..2 relay references, fanout-only flag) one real
// handler runs; the node announces exactly on the edges of  announced = (subs>0 and not fanout-only) or relays>0,
// and joins/leaves the router in step with it.
func vpH_C05_refcount() {
	nd := vpNewNode("self", vpNodeCfg{router: "gossipsub"})
	ps := nd.ps
	q := nd.vpAddPeer("obs", GossipSubID_v11, true)
	fanoutOnly := vpBool("fanout_only")
	nSubs, nRel := vpInt("subs", 0, 2), vpInt("relays", 0, 2)
	if fanoutOnly {
		vpAssume(nRel == 0) // Relay is refused on fanout-only topics
	}
	t := &Topic{p: ps, topic: vpT0, evtHandlers: map[*TopicEventHandler]struct{}{}, fanoutOnly: fanoutOnly}
	ps.myTopics[vpT0] = t
	var subs []*Subscription
	for i := 0; i < 2; i++ {
		s := &Subscription{topic: vpT0, ch: make(chan *Message, 3), ctx: ps.ctx}
		subs = append(subs, s)
		if i < nSubs {
			if ps.mySubs[vpT0] == nil {
				ps.mySubs[vpT0] = map[*Subscription]struct{}{}
			}
			ps.mySubs[vpT0][s] = struct{}{}
		}
	}
	if nRel > 0 {
		ps.myRelays[vpT0] = nRel
	}
	// interest in ANOTHER topic must not matter for this one
	otherSub, otherRelay := vpBool("subscribed_to_another_topic"), vpBool("relaying_another_topic")
	if otherSub {
		ps.mySubs["t1"] = map[*Subscription]struct{}{{topic: "t1", ch: make(chan *Message, 1), ctx: ps.ctx}: {}}
	}
	if otherRelay {
		ps.myRelays["t1"] = 1
	}
	if otherSub || otherRelay {
		nd.gs.mesh["t1"] = map[peer.ID]struct{}{}
	}
	announced0 := (nSubs > 0 && !fanoutOnly) || nRel > 0
	if announced0 {
		nd.gs.mesh[vpT0] = map[peer.ID]struct{}{}
	}
	subs2, rel2 := nSubs, nRel
	buffered := 0
	switch vpInt("op", 0, 3) {
	case 0: // subscribe
		ns := &Subscription{topic: vpT0, ch: make(chan *Message, 3), ctx: ps.ctx}
		ps.handleAddSubscription(&addSubReq{sub: ns, resp: make(chan *Subscription, 1)})
		subs2++
	case 1: // cancel an existing subscription (with messages still buffered)
		vpAssume(nSubs > 0)
		buffered = vpInt("buffered", 0, 2)
		m1, m2 := vpMkMsg("A", "1", vpT0), vpMkMsg("A", "2", vpT0)
		if buffered > 0 {
			subs[0].ch <- m1
		}
		if buffered > 1 {
			subs[0].ch <- m2
		}
		ps.handleRemoveSubscription(subs[0])
		subs2--
		// a cancelled subscription hands out what it had buffered, then reports cancellation
		ctx := context.Background()
		for i := 0; i < 2; i++ {
			if i < buffered {
				got, err := subs[0].Next(ctx)
				vpAssert(err == nil && ((i == 0 && got == m1) || (i == 1 && got == m2)), "a cancelled subscription first drains its buffered messages in order")
			}
		}
		_, err := subs[0].Next(ctx)
		vpAssert(err == ErrSubscriptionCancelled, "a cancelled subscription reports cancellation from Next once drained")
	case 2: // relay
		vpAssume(!fanoutOnly)
		ps.handleAddRelay(&addRelayReq{topic: vpT0, resp: make(chan RelayCancelFunc, 1)})
		rel2++
	case 3: // relay cancel
		ps.handleRemoveRelay(vpT0)
		if rel2 > 0 {
			rel2--
		}
	}
	announced1 := (subs2 > 0 && !fanoutOnly) || rel2 > 0
	a := vpReadAnnouncements(q)
	if announced0 == announced1 {
		vpAssert(a.n == 0, "no announcement is sent while interest in the topic does not change")
	} else {
		vpAssert(a.n == 1 && a.topic == vpT0 && a.sub == announced1, "exactly one announcement (subscribe on first interest, unsubscribe when the last subscription or relay goes)")
	}
	_, joined := nd.gs.mesh[vpT0]
	vpAssert(joined == announced1, "the router has joined the topic exactly while interest is announced")
	vpAssert(len(ps.mySubs[vpT0]) == subs2 && ps.myRelays[vpT0] == rel2, "reference counts are exact")
	// representation invariant the arbitrary pre-state relies on (hello packets and retries go by KEY presence): an entry
	// exists exactly while its count is positive - preserved by every step, hence by histories of any length
	_, relKey := ps.myRelays[vpT0]
	_, subKey := ps.mySubs[vpT0]
	vpAssert(relKey == (rel2 > 0) && subKey == (subs2 > 0), "no zero-count entry is left behind in the relay / subscription tables (a later hello packet or retry would announce a topic the node no longer holds)")
	// the hello packet sent on a new stream lists exactly the announced topics
	hello := ps.getHelloPacket()
	h0, h1 := 0, 0
	for _, so := range hello.Subscriptions {
		if so.GetSubscribe() && so.GetTopicid() == vpT0 {
			h0++
		}
		if so.GetSubscribe() && so.GetTopicid() == "t1" {
			h1++
		}
	}
	w0, w1 := 0, 0
	if announced1 {
		w0 = 1
	}
	if otherSub || otherRelay {
		w1 = 1
	}
	vpAssert(h0 == w0 && h1 == w1 && len(hello.Subscriptions) == w0+w1, "the hello packet announces exactly the topics the node is interested in, once each (fanout-only subscriptions excluded)")
	vpCover(announced0 && !announced1, "withdrawn")
	vpCover(!announced0 && announced1 && rel2 > 0, "first relay announces")
	vpCover(fanoutOnly && subs2 > 0, "fanout-only subscription")
}

// remote_view: the real handleIncomingRPC subscription bookkeeping: topic membership after the step is what the
// last SUBSCRIBE/UNSUBSCRIBE of the peer says, empty topic maps are removed.
func vpH_C05_remote_view() {
	nd := vpNewNode("self", vpNodeCfg{router: "floodsub"})
	ps := nd.ps
	nd.vpAddPeer("p0", FloodSubID, true)
	nd.vpAddPeer("p1", FloodSubID, true)
	in0, in1 := vpBool("p0_in_topic"), vpBool("p1_in_topic")
	if in0 || in1 {
		ps.topics[vpT0] = map[peer.ID]peerTopicState{}
		if in0 {
			ps.topics[vpT0]["p0"] = peerTopicState{}
		}
		if in1 {
			ps.topics[vpT0]["p1"] = peerTopicState{}
		}
	}
	sub := vpBool("subscribe")
	ps.handleIncomingRPC(vpSubRPC("p0", vpT0, sub))
	_, now0 := ps.topics[vpT0]["p0"]
	_, now1 := ps.topics[vpT0]["p1"]
	vpAssert(now0 == sub && now1 == in1, "topic membership follows the peer's last announcement; other peers are untouched")
	tm, has := ps.topics[vpT0]
	vpAssert(!has || len(tm) > 0, "empty topic maps are removed")
	vpCover(in0 && !sub && !in1 && !has, "last member left")
}

var _ = pb.TraceEvent_JOIN

// retry: an announcement that hits a full outbound queue is retried later; the retry re-checks the CURRENT interest
// (subscriptions AND relays) before resending. At quiescence the observer's view equals the node's interest.
func vpH_C05_retry() {
	nd := vpNewNode("self", vpNodeCfg{router: "floodsub", queue: 1})
	ps := nd.ps
	ps.eval = make(chan func(), 1) // (buffered so that the retry goroutine can hand its thunk over without a running loop)
	q := nd.vpAddPeer("obs", FloodSubID, true)
	byRelay := vpBool("interest_is_a_relay")
	withdrawBeforeRetry := vpBool("withdrawn_before_retry")
	observed := false // what the observer has heard last
	hear := func() {
		for _, r := range vpDrain(q) {
			for _, s := range r.GetSubscriptions() {
				if s.GetTopicid() == vpT0 {
					observed = s.GetSubscribe()
				}
			}
		}
	}
	q.Push(&RPC{}, false) // the queue is full when interest is first announced
	sub := &Subscription{topic: vpT0, ch: make(chan *Message, 1), ctx: ps.ctx}
	if byRelay {
		ps.handleAddRelay(&addRelayReq{topic: vpT0, resp: make(chan RelayCancelFunc, 1)})
	} else {
		ps.handleAddSubscription(&addSubReq{sub: sub, resp: make(chan *Subscription, 1)})
	}
	hear() // the observer drains the filler RPC; the announcement itself was dropped
	vpAssert(!observed, "the announcement hit the full queue")
	interested := true
	if withdrawBeforeRetry {
		if byRelay {
			ps.handleRemoveRelay(vpT0)
		} else {
			ps.handleRemoveSubscription(sub)
		}
		interested = false
		hear()
	}
	// the retry goroutines run (sleep, then hand a thunk to the event loop), the loop runs the thunks
	for k := 0; k < 3; k++ {
		time.Sleep(2 * time.Second) // (natively the retry goroutine sleeps up to a second of jitter)
		vpFireAll()
		for len(ps.eval) > 0 {
			f := <-ps.eval
			f()
		}
		hear()
	}
	vpAssert(observed == interested, "after retries the observer's view of the node's interest equals its true interest (subscriptions and relays alike)")
	vpCover(byRelay && !withdrawBeforeRetry && observed, "relay-only interest announced by a retry")
	vpCover(withdrawBeforeRetry, "withdrawn before the retry")
}

// stream_churn: the node's view of who is in a topic across the death of ONE stream direction of a peer that announced
// interest: the peer's announcements arrive on ITS stream to us (inbound); they stay valid while that stream is open. When
// only OUR stream to the peer (outbound) dies and the connection stays up - a transient reset - the writer is respawned and
// the peer, which never learns of the reset and so never re-announces, must stay listed; when the peer's inbound stream
// closes, or the connection is gone, it is unlisted. Router under test symbolic among floodsub / gossipsub.
func vpStreamChurn(router string) {
	nd := vpNewNode("self", vpNodeCfg{router: router})
	ps := nd.ps
	proto := FloodSubID
	if router == "gossipsub" {
		proto = GossipSubID_v11
	}
	nd.vpAddPeer("x", proto, vpBool("x_outbound"))
	nd.vpAddPeer("y", proto, true)
	ps.handleIncomingRPC(vpSubRPC("x", vpT0, true))
	if vpBool("y_in_topic") {
		ps.handleIncomingRPC(vpSubRPC("y", vpT0, true))
	}
	_, listed0 := ps.topics[vpT0]["x"]
	vpAssert(listed0, "a peer that announced interest is listed")
	stillConnected := vpBool("connection_stays_up")
	what := vpInt("what_dies", 0, 1)
	switch what {
	case 0: // our outbound stream to x dies
		nd.h.net.connected["x"] = stillConnected
		ps.peerDeadPend["x"] = struct{}{}
		ps.handleDeadPeers()
		vpDropPending()
	case 1: // x's stream to us closes
		ps.onClosedIncomingStream("x", proto)
	}
	_, listed := ps.topics[vpT0]["x"]
	if what == 0 && stillConnected {
		vpAssert(listed, "a transient reset of OUR stream to a peer that stays connected does not unlist the peer: its interest was announced on its own stream, which is still open, and it will not announce it again")
	} else {
		vpAssert(!listed, "a peer whose announcing stream closed, or that disconnected, is no longer listed")
	}
	_, ylisted := ps.topics[vpT0]["y"]
	_, yq := ps.peers["y"]
	vpAssert(yq, "other peers keep their queues")
	_ = ylisted
	vpCover(what == 0 && stillConnected && listed, "transient outbound reset, peer stays listed")
	vpCover(what == 0 && !stillConnected, "disconnect")
}
func vpH_C05_stream_churn_fs() { vpStreamChurn("floodsub") }
func vpH_C05_stream_churn_gs() { vpStreamChurn("gossipsub") }

// remote_view_scored: interest announcements are bookkeeping, not payload: under gossipsub with scoring they are applied
// whatever the announcing peer's score (also below the graylist threshold, where its payload and control are ignored)
// and whether or not it is a direct peer; a peer that recovers its score does not announce again.
func vpH_C05_remote_view_scored() {
	w := vpNewWorld(vpWorldCfg{P: 2, params: vpSmallParams(), scoring: true, direct: true, symThresholds: true, noFanout: true})
	ps := w.n.ps
	i := vpInt("peer", 0, w.P-1)
	vpAssume(w.up[i])
	p := w.peers[i]
	sub := vpBool("subscribe")
	other := w.peers[1-i]
	_, otherBefore := ps.topics[vpT0][other]
	ps.handleIncomingRPC(vpSubRPC(p, vpT0, sub))
	_, now := ps.topics[vpT0][p]
	_, otherNow := ps.topics[vpT0][other]
	vpAssert(now == sub, "topic membership follows the peer's last announcement whatever its score")
	vpAssert(otherNow == otherBefore, "other peers are untouched")
	gray := !w.direct[i] && w.score[i] < w.n.gs.graylistThreshold
	vpCover(gray && sub && !w.inTopic[i], "SUBSCRIBE from a graylisted peer is applied")
	vpCover(gray && !sub && w.inTopic[i], "UNSUBSCRIBE from a graylisted peer is applied")
}

// retry2: TWO connected peers, each outbound queue full or not at the moment interest changes (solver variables), peers
// registered in either order (the library walks a map): every peer is either told at once or retried until told - a full
// queue at one peer never costs ANOTHER peer its announcement; after the retries both observers' views equal the node's
// interest. With the recording tracer attached (C19): every announcement accepted by a queue - at once or on a retry - has
// exactly one SEND_RPC event, every refused one exactly one DROP_RPC event.
func vpH_C05_retry2() {
	nd := vpNewNode("self", vpNodeCfg{router: "floodsub", queue: 1, tracer: true})
	ps := nd.ps
	ps.eval = make(chan func(), 4)
	names := []peer.ID{"obsA", "obsB"}
	if vpBool("registered_in_reverse_order") {
		names = []peer.ID{"obsB", "obsA"}
	}
	var qs [2]*rpcQueue
	var full [2]bool
	for i := 0; i < 2; i++ {
		qs[i] = nd.vpAddPeer(names[i], FloodSubID, true)
		full[i] = vpBool("queue_full")
		if full[i] {
			qs[i].Push(&RPC{}, false)
		}
	}
	nd.tr.evts = nil
	sub := vpBool("subscribe") // (an unsubscribe announcement of a node without interest is not retried: nothing to correct)
	if sub {
		s := &Subscription{topic: vpT0, ch: make(chan *Message, 1), ctx: ps.ctx}
		ps.handleAddSubscription(&addSubReq{sub: s, resp: make(chan *Subscription, 1)})
	} else {
		ps.announce(vpT0, false)
	}
	var observed [2]bool
	var told [2]int
	hear := func() {
		for i := 0; i < 2; i++ {
			for _, r := range vpDrain(qs[i]) {
				for _, so := range r.GetSubscriptions() {
					if so.GetTopicid() == vpT0 {
						observed[i] = so.GetSubscribe()
						told[i]++
					}
				}
			}
		}
	}
	for i := 0; i < 2; i++ {
		sends, drops := nd.tr.countPeer(pb.TraceEvent_SEND_RPC, names[i]), nd.tr.countPeer(pb.TraceEvent_DROP_RPC, names[i])
		if full[i] {
			vpAssert(sends == 0 && drops == 1, "an announcement refused by a full queue has exactly one DROP_RPC event and no SEND_RPC")
		} else {
			vpAssert(sends == 1 && drops == 0, "an announcement accepted by a queue has exactly one SEND_RPC event, whatever happened at other peers")
		}
	}
	hear()
	for i := 0; i < 2; i++ {
		if !full[i] {
			vpAssert(told[i] == 1, "a peer whose queue has room is told at once, also when another peer's queue is full")
		}
	}
	nd.tr.evts = nil
	for k := 0; k < 2; k++ {
		time.Sleep(2 * time.Second)
		vpFireAll()
		for len(ps.eval) > 0 {
			f := <-ps.eval
			f()
		}
		hear()
	}
	for i := 0; i < 2; i++ {
		if sub {
			vpAssert(observed[i] && told[i] == 1, "after the retries every connected peer has been told of the node's interest exactly once")
		}
		if full[i] && sub {
			vpAssert(nd.tr.countPeer(pb.TraceEvent_SEND_RPC, names[i]) == 1, "an announcement accepted on a RETRY has exactly one SEND_RPC event as well")
		}
	}
	vpCover(full[0] && !full[1] && sub, "first peer's queue full, second has room")
	vpCover(full[0] && full[1] && sub, "both queues full")
}
