//go:build verif

package pubsub

import (
	"time"
)

// ---- C08: prune backoff is honoured in both directions --------------------------------------------

// refuse: a GRAFT from a peer still under backoff is refused with a PRUNE, penalised (doubly inside the
// graft-flood window), extends the backoff, and the PRUNE to a v1.1+ peer states the backoff.
func vpH_C08_refuse() {
	w := vpNewWorld(vpWorldCfg{P: 3, params: vpSmallParams(), scoring: true, direct: true})
	gs := w.n.gs
	i := vpInt("sender", 0, w.P-1)
	p := w.peers[i]
	vpAssume(w.up[i]) // GRAFTs that matter come from peers we have a stream to (else see C13)
	pen0 := w.penalty(i)
	out := gs.handleGraft(p, vpGraftCtl(vpT0))
	backedOff := w.hasBO[i] && w.now.Before(w.boExp[i])
	if w.joined && !w.mesh[i] && !w.direct[i] && backedOff {
		vpAssert(len(out) == 1 && out[0].GetTopicID() == vpT0, "GRAFT during backoff is refused with a PRUNE")
		vpAssert(!w.inMeshNow(i), "GRAFT during backoff is not admitted to the mesh")
		flood := w.now.Before(w.boExp[i].Add(gs.params.GraftFloodThreshold - gs.params.PruneBackoff))
		want := pen0 + 1
		if flood {
			want = pen0 + 2
		}
		vpAssert(w.penalty(i) == want, "GRAFT during backoff is penalised, doubly inside the graft-flood threshold")
		exp, ok := gs.backoff[vpT0][p]
		vpAssert(ok && !exp.Before(w.now.Add(gs.params.PruneBackoff)) && !exp.Before(w.boExp[i]), "the backoff is extended (never shortened)")
		if len(out) == 1 && w.speaksV11(i) {
			vpAssert(out[0].Backoff != nil && out[0].GetBackoff() == uint64(gs.params.PruneBackoff/time.Second), "PRUNE to a v1.1+ peer states the backoff period")
		}
		vpCover(flood, "graft inside the flood window")
		vpCover(!flood, "graft outside the flood window")
	}
	if w.joined && !w.mesh[i] && !w.direct[i] && !backedOff {
		vpAssert(w.penalty(i) == pen0, "no backoff penalty outside the backoff window")
	}
	vpCover(w.joined && w.hasBO[i] && w.now.Equal(w.boExp[i]) && w.inMeshNow(i) && !w.mesh[i], "GRAFT exactly at expiry is admitted")
}

// no_early_graft (Join): the GRAFT-emitting site Join (fresh and fanout promotion) never grafts a backed-off peer.
// (Shared with C07_join, whose assertions include "promoted unless backed off" and "only adds peers ... not backed off".)
func vpH_C08_join_no_early_graft() { vpH_C07_join() }

// clear: the periodic backoff clean-up (every 15th heartbeat tick) removes an entry only once it has been expired for
// more than the slack of two heartbeat intervals; an entry whose backoff is still running is never removed.
func vpH_C08_clear() {
	w := vpNewWorld(vpWorldCfg{P: 2, params: vpSmallParams()})
	gs := w.n.gs
	gs.heartbeatTicks = uint64(vpInt("heartbeat_ticks", 0, 45))
	sweeps := gs.heartbeatTicks%15 == 0
	gs.clearBackoff()
	for i, p := range w.peers {
		_, still := gs.backoff[vpT0][p]
		if !w.hasBO[i] {
			vpAssert(!still, "the clean-up creates no entries")
			continue
		}
		stale := w.boExp[i].Add(2 * GossipSubHeartbeatInterval).Before(w.now)
		vpAssert(still == !(sweeps && stale), "a backoff entry is removed exactly by a clean-up tick that finds it expired for more than two heartbeat intervals")
		if !w.boExp[i].Before(w.now) {
			vpAssert(still, "a backoff that is still running is never forgotten")
		}
	}
	_, any := gs.backoff[vpT0]
	vpAssert(any == (len(gs.backoff[vpT0]) > 0), "empty per-topic tables are released")
	vpCover(sweeps && w.hasBO[0] && !w.boExp[0].Before(w.now) && w.boExp[0].Before(w.now.Add(2*GossipSubHeartbeatInterval)), "clean-up tick with a backoff about to expire")
}
