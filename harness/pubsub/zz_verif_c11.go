//go:build verif

package pubsub

import (
	pb "github.com/libp2p/go-libp2p-pubsub/pb"
	"github.com/libp2p/go-libp2p/core/peer"
	"github.com/libp2p/go-libp2p/core/protocol"
)

// ---- C11: splitting an oversized RPC loses nothing and respects the size limit ----------------------

type vpSplitShape struct {
	msgs, subs, grafts, prunes, iwant, ihave, idontwant int
	ext                                            bool
}

// vpSplitCheck builds an RPC of the given shape (payload lengths symbolic), iterates the REAL rpc.split(limit)
// with a symbolic limit and compares the fragments with the original element by element.
func vpSplitCheck(sh vpSplitShape, maxData, minLimit, maxLimit int) {
	topic := "t0"
	rpc := &RPC{from: "p0"}
	var msgs []*pb.Message
	for i := 0; i < sh.msgs; i++ {
		n := vpInt("data_len", 0, maxData)
		m := &pb.Message{Data: vpOpaqueBytes(n, maxData), Topic: &topic}
		msgs = append(msgs, m)
		rpc.Publish = append(rpc.Publish, m)
	}
	var subs []*pb.RPC_SubOpts
	for i := 0; i < sh.subs; i++ {
		s := &pb.RPC_SubOpts{Subscribe: vpB(true), Topicid: vpStr([]string{"topicA", "topicBB"}[i%2])}
		subs = append(subs, s)
		rpc.Subscriptions = append(rpc.Subscriptions, s)
	}
	ctl := &pb.ControlMessage{}
	hasCtl := sh.grafts+sh.prunes+sh.iwant+sh.ihave+sh.idontwant > 0 || sh.ext
	var grafts []*pb.ControlGraft
	for i := 0; i < sh.grafts; i++ {
		g := &pb.ControlGraft{TopicID: vpStr("graft-topic")}
		grafts = append(grafts, g)
		ctl.Graft = append(ctl.Graft, g)
	}
	var prunes []*pb.ControlPrune
	for i := 0; i < sh.prunes; i++ {
		p := &pb.ControlPrune{TopicID: vpStr("prune-topic"), Backoff: vpU64(60)}
		prunes = append(prunes, p)
		ctl.Prune = append(ctl.Prune, p)
	}
	iwantIDs := []string{"iwant-id-0", "iwant-id-1", "iwant-id-2"}[:sh.iwant]
	if sh.iwant > 0 {
		ctl.Iwant = []*pb.ControlIWant{{MessageIDs: append([]string{}, iwantIDs...)}}
	}
	ihaveIDs := []string{"ihave-id-0", "ihave-id-1", "ihave-id-2"}[:sh.ihave]
	if sh.ihave > 0 {
		ctl.Ihave = []*pb.ControlIHave{{TopicID: &topic, MessageIDs: append([]string{}, ihaveIDs...)}}
	}
	idwIDs := []string{"idontwant-id-0", "idontwant-id-1"}[:sh.idontwant]
	if sh.idontwant > 0 {
		ctl.Idontwant = []*pb.ControlIDontWant{{MessageIDs: append([]string{}, idwIDs...)}}
	}
	if sh.ext {
		ctl.Extensions = &pb.ControlExtensions{PartialMessages: vpB(true)}
	}
	if hasCtl {
		rpc.Control = ctl
	}
	total := rpc.Size()
	limit := vpInt("limit", minLimit, maxLimit)

	var frags []RPC
	for f := range rpc.split(limit) {
		frags = append(frags, f)
	}

	// (1) nothing lost, nothing duplicated: per element, occurrences over all fragments == 1
	for i, m := range msgs {
		c := 0
		for _, f := range frags {
			for _, x := range f.Publish {
				if x == m {
					c++
				}
			}
		}
		vpAssert(c == 1, "every published message appears in exactly one fragment")
		_ = i
	}
	for _, s := range subs {
		c := 0
		for _, f := range frags {
			for _, x := range f.Subscriptions {
				if x == s {
					c++
				}
			}
		}
		vpAssert(c == 1, "every subscription appears in exactly one fragment")
	}
	for _, g := range grafts {
		c := 0
		for _, f := range frags {
			for _, x := range f.GetControl().GetGraft() {
				if x == g {
					c++
				}
			}
		}
		vpAssert(c == 1, "every GRAFT appears in exactly one fragment")
	}
	for _, p := range prunes {
		c := 0
		for _, f := range frags {
			for _, x := range f.GetControl().GetPrune() {
				if x == p {
					c++
				}
			}
		}
		vpAssert(c == 1, "every PRUNE appears in exactly one fragment")
	}
	for _, id := range iwantIDs {
		c := 0
		for _, f := range frags {
			for _, iw := range f.GetControl().GetIwant() {
				for _, x := range iw.GetMessageIDs() {
					if x == id {
						c++
					}
				}
			}
		}
		vpAssert(c == 1, "every IWANT message ID appears in exactly one fragment")
	}
	for _, id := range ihaveIDs {
		c := 0
		for _, f := range frags {
			for _, ih := range f.GetControl().GetIhave() {
				for _, x := range ih.GetMessageIDs() {
					if x == id && ih.GetTopicID() == topic {
						c++
					}
				}
			}
		}
		vpAssert(c == 1, "every IHAVE message ID appears in exactly one fragment, under its topic")
	}
	for _, id := range idwIDs {
		c := 0
		for _, f := range frags {
			for _, d := range f.GetControl().GetIdontwant() {
				for _, x := range d.GetMessageIDs() {
					if x == id {
						c++
					}
				}
			}
		}
		vpAssert(c == 1, "every IDONTWANT message ID appears in exactly one fragment")
	}
	if sh.ext {
		c := 0
		for _, f := range frags {
			if f.GetControl().GetExtensions() != nil {
				c++
			}
		}
		vpAssert(c == 1, "the extensions control message appears in exactly one fragment")
	}
	// (2) size limit, (3) no empty fragment
	for _, f := range frags {
		sz := f.Size()
		vpAssert(sz > 0, "no empty RPC is produced")
		elems := len(f.Publish) + len(f.Subscriptions)
		if c := f.GetControl(); c != nil {
			elems += len(c.Graft) + len(c.Prune)
			for _, iw := range c.Iwant {
				elems += len(iw.MessageIDs)
			}
			for _, ih := range c.Ihave {
				elems += len(ih.MessageIDs)
			}
			for _, d := range c.Idontwant {
				elems += len(d.MessageIDs)
			}
			if c.Extensions != nil {
				elems++
			}
		}
		vpAssert(sz <= limit || elems <= 1, "every fragment fits the limit unless it carries a single indivisible element")
	}
	vpCover(len(frags) >= 3, "three or more fragments")
	vpCover(limit > total, "limit beyond the RPC's own size")
}

func vpH_C11_split_msgs() {
	vpOpt("unwind", 8)
	vpSplitCheck(vpSplitShape{msgs: 2, subs: 1}, 300, 16, 400)
}

func vpH_C11_split_ctl() {
	vpOpt("unwind", 8)
	vpSplitCheck(vpSplitShape{subs: 1, grafts: 1, iwant: 2, idontwant: 1}, 40, 24, 120)
}

// further element mixes: the indivisible extensions control message between divisible neighbours; PRUNE and IHAVE
func vpH_C11_split_ext() {
	vpOpt("unwind", 8)
	vpSplitCheck(vpSplitShape{grafts: 1, iwant: 1, idontwant: 1, ext: true}, 40, 16, 90)
}

func vpH_C11_split_prune_ihave() {
	vpOpt("unwind", 8)
	vpSplitCheck(vpSplitShape{prunes: 1, ihave: 2, ext: true}, 40, 16, 90)
}

// sendrpc: the router's send path. An RPC that fits by itself picks up pending GRAFT retries and pending gossip before
// it is sized; whatever is queued for the wire fits the limit, carries everything exactly once, and an element too
// large to ever fit is dropped and traced as dropped.
// vpRawRec: a raw tracer that summarises, at the moment the router reports an RPC as queued (SendRPC) or dropped
// (DropRPC), what that RPC carries and how large it is.
type vpRawRec struct {
	msg       *pb.Message
	graft     *pb.ControlGraft
	ids       []string
	nSent     int
	maxSize   int
	minSize   int
	cm, cg    int
	ci        [3]int
	dropMsg   int
	nDropped  int
}

func (t *vpRawRec) OnNewOutboundStream(p peer.ID, proto protocol.ID) {}
func (t *vpRawRec) OnClosedOutboundStream(p peer.ID)                 {}
func (t *vpRawRec) Join(topic string)                                {}
func (t *vpRawRec) Leave(topic string)                               {}
func (t *vpRawRec) Graft(p peer.ID, topic string)                    {}
func (t *vpRawRec) Prune(p peer.ID, topic string)                    {}
func (t *vpRawRec) ValidateMessage(msg *Message)                     {}
func (t *vpRawRec) DeliverMessage(msg *Message)                      {}
func (t *vpRawRec) RejectMessage(msg *Message, reason string)        {}
func (t *vpRawRec) DuplicateMessage(msg *Message)                    {}
func (t *vpRawRec) ThrottlePeer(p peer.ID)                           {}
func (t *vpRawRec) RecvRPC(rpc *RPC)                                 {}
func (t *vpRawRec) UndeliverableMessage(msg *Message)                {}
func (t *vpRawRec) SendRPC(r *RPC, p peer.ID) {
	t.nSent++
	sz := r.Size()
	if sz > t.maxSize {
		t.maxSize = sz
	}
	if sz < t.minSize {
		t.minSize = sz
	}
	for _, m := range r.Publish {
		if m == t.msg {
			t.cm++
		}
	}
	for _, g := range r.GetControl().GetGraft() {
		if g == t.graft {
			t.cg++
		}
	}
	for _, ih := range r.GetControl().GetIhave() {
		for _, id := range ih.GetMessageIDs() {
			for j := range t.ids {
				if id == t.ids[j] && ih.GetTopicID() == vpT0 {
					t.ci[j]++
				}
			}
		}
	}
}
func (t *vpRawRec) DropRPC(r *RPC, p peer.ID) {
	t.nDropped++
	for _, m := range r.Publish {
		if m == t.msg {
			t.dropMsg++
		}
	}
}

func vpSendRPC(retry bool, ni int, n int) {
	vpOpt("unwind", 8)
	params := vpSmallParams()
	raw := &vpRawRec{minSize: 1 << 30}
	nd := vpNewNode("self", vpNodeCfg{router: "gossipsub", params: &params, opts: []Option{WithRawTracer(raw)}})
	gs, ps := nd.gs, nd.ps
	p := peer.ID("p0")
	q := nd.vpAddPeer(p, GossipSubID_v11, true)
	gs.mesh[vpT0] = map[peer.ID]struct{}{p: {}}
	limit := vpInt("limit", 48, 100)
	ps.maxMessageSize = limit
	topic := vpT0
	msg := &pb.Message{Data: make([]byte, n), Topic: &topic} // (payload size concrete per variant; the limit is the solver variable)
	out := &RPC{RPC: pb.RPC{Publish: []*pb.Message{msg}}}
	graft := &pb.ControlGraft{TopicID: &topic}
	if retry {
		gs.control[p] = &pb.ControlMessage{Graft: []*pb.ControlGraft{graft}}
	}
	ids := []string{"ihave-id-0", "ihave-id-1", "ihave-id-2"}
	if ni > 0 {
		gs.gossip[p] = []*pb.ControlIHave{{TopicID: &topic, MessageIDs: append([]string{}, ids[:ni]...)}}
	}
	*raw = vpRawRec{minSize: 1 << 30, msg: msg, graft: graft, ids: ids}
	gs.sendRPC(p, out, false)
	q.queueMu.Lock()
	queued := len(q.queue.priority) + len(q.queue.normal)
	q.queueMu.Unlock()
	msgAlone := (&RPC{RPC: pb.RPC{Publish: []*pb.Message{msg}}}).Size()
	vpObserve("queued", queued)
	vpObserve("dropped", raw.nDropped)
	vpAssert(queued == raw.nSent && queued >= 1, "every queued RPC is reported as sent, and something is queued")
	vpAssert(raw.maxSize <= limit, "gossipsub never queues an RPC larger than the limit for the wire")
	vpAssert(raw.minSize > 0, "no empty RPC is queued")
	// (which of the two cases can occur is fixed by the variant's payload size; an assertion is emitted only where reachable)
	fits := msgAlone <= limit
	if n < 45 || (n < 100 && fits) {
		vpAssert(fits && raw.cm == 1 && raw.dropMsg == 0, "a message that fits by itself is queued exactly once")
	}
	if n >= 100 || (n >= 45 && !fits) {
		vpAssert(!fits && raw.cm == 0 && raw.dropMsg >= 1, "a message that cannot fit by itself is dropped and reported as dropped")
	}
	if retry {
		vpAssert(raw.cg == 1, "the pending GRAFT retry is queued exactly once")
		pend := 0
		for _, g := range gs.control[p].GetGraft() {
			if g == graft {
				pend++
			}
		}
		vpAssert(pend == 0, "a GRAFT that was queued is not also kept for another retry (nothing duplicated)")
	} else {
		vpAssert(raw.cg == 0, "no GRAFT appears from nowhere")
	}
	for j := range ids {
		want := 0
		if j < ni {
			want = 1
		}
		vpAssert(raw.ci[j] == want, "every pending IHAVE message ID is queued exactly once")
	}
	_, g1 := gs.gossip[p]
	vpAssert(!g1, "pending gossip is consumed")
	if n >= 70 {
		vpCover(msgAlone > limit && queued >= 1, "oversized message dropped, the rest queued")
	}
	if n < 100 {
		vpCover(queued >= 2, "split after piggybacking")
		vpCover(queued == 1, "fits in one RPC")
	}
}

func vpH_C11_sendrpc_retry_gossip() { vpSendRPC(true, 2, 20) }
func vpHT_C11_sendrpc_retry_gossip3() { vpSendRPC(true, 3, 20) }
func vpH_C11_sendrpc_gossip()       { vpSendRPC(false, 2, 40) }
func vpH_C11_sendrpc_retry()        { vpSendRPC(true, 0, 70) }
func vpH_C11_sendrpc_oversized()    { vpSendRPC(true, 1, 120) }
