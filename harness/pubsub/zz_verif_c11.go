//go:build verif

package pubsub

import (
	pb "github.com/libp2p/go-libp2p-pubsub/pb"
)

// ---- C11: splitting an oversized RPC loses nothing and respects the size limit ----------------------

type vpSplitShape struct {
	msgs, subs, grafts, prunes, iwant, ihave, idontwant int
	ext                                            bool
}

// vpSplitCheck builds an RPC of the given shape (payload lengths symbolic), iterates the REAL rpc.split(limit)
// with a symbolic limit and compares the fragments with the original element by element.
func vpSplitCheck(sh vpSplitShape, maxData, minLimit, maxLimit int) {
	topic := "t0"
	rpc := &RPC{from: "p0"}
	var msgs []*pb.Message
	for i := 0; i < sh.msgs; i++ {
		n := vpInt("data_len", 0, maxData)
		m := &pb.Message{Data: vpOpaqueBytes(n, maxData), Topic: &topic}
		msgs = append(msgs, m)
		rpc.Publish = append(rpc.Publish, m)
	}
	var subs []*pb.RPC_SubOpts
	for i := 0; i < sh.subs; i++ {
		s := &pb.RPC_SubOpts{Subscribe: vpB(true), Topicid: vpStr([]string{"topicA", "topicBB"}[i%2])}
		subs = append(subs, s)
		rpc.Subscriptions = append(rpc.Subscriptions, s)
	}
	ctl := &pb.ControlMessage{}
	hasCtl := sh.grafts+sh.prunes+sh.iwant+sh.ihave+sh.idontwant > 0 || sh.ext
	var grafts []*pb.ControlGraft
	for i := 0; i < sh.grafts; i++ {
		g := &pb.ControlGraft{TopicID: vpStr("graft-topic")}
		grafts = append(grafts, g)
		ctl.Graft = append(ctl.Graft, g)
	}
	var prunes []*pb.ControlPrune
	for i := 0; i < sh.prunes; i++ {
		p := &pb.ControlPrune{TopicID: vpStr("prune-topic"), Backoff: vpU64(60)}
		prunes = append(prunes, p)
		ctl.Prune = append(ctl.Prune, p)
	}
	iwantIDs := []string{"iwant-id-0", "iwant-id-1", "iwant-id-2"}[:sh.iwant]
	if sh.iwant > 0 {
		ctl.Iwant = []*pb.ControlIWant{{MessageIDs: append([]string{}, iwantIDs...)}}
	}
	ihaveIDs := []string{"ihave-id-0", "ihave-id-1", "ihave-id-2"}[:sh.ihave]
	if sh.ihave > 0 {
		ctl.Ihave = []*pb.ControlIHave{{TopicID: &topic, MessageIDs: append([]string{}, ihaveIDs...)}}
	}
	idwIDs := []string{"idontwant-id-0", "idontwant-id-1"}[:sh.idontwant]
	if sh.idontwant > 0 {
		ctl.Idontwant = []*pb.ControlIDontWant{{MessageIDs: append([]string{}, idwIDs...)}}
	}
	if sh.ext {
		ctl.Extensions = &pb.ControlExtensions{PartialMessages: vpB(true)}
	}
	if hasCtl {
		rpc.Control = ctl
	}
	total := rpc.Size()
	limit := vpInt("limit", minLimit, maxLimit)

	var frags []RPC
	for f := range rpc.split(limit) {
		frags = append(frags, f)
	}

	// (1) nothing lost, nothing duplicated: per element, occurrences over all fragments == 1
	for i, m := range msgs {
		c := 0
		for _, f := range frags {
			for _, x := range f.Publish {
				if x == m {
					c++
				}
			}
		}
		vpAssert(c == 1, "every published message appears in exactly one fragment")
		_ = i
	}
	for _, s := range subs {
		c := 0
		for _, f := range frags {
			for _, x := range f.Subscriptions {
				if x == s {
					c++
				}
			}
		}
		vpAssert(c == 1, "every subscription appears in exactly one fragment")
	}
	for _, g := range grafts {
		c := 0
		for _, f := range frags {
			for _, x := range f.GetControl().GetGraft() {
				if x == g {
					c++
				}
			}
		}
		vpAssert(c == 1, "every GRAFT appears in exactly one fragment")
	}
	for _, p := range prunes {
		c := 0
		for _, f := range frags {
			for _, x := range f.GetControl().GetPrune() {
				if x == p {
					c++
				}
			}
		}
		vpAssert(c == 1, "every PRUNE appears in exactly one fragment")
	}
	for _, id := range iwantIDs {
		c := 0
		for _, f := range frags {
			for _, iw := range f.GetControl().GetIwant() {
				for _, x := range iw.GetMessageIDs() {
					if x == id {
						c++
					}
				}
			}
		}
		vpAssert(c == 1, "every IWANT message ID appears in exactly one fragment")
	}
	for _, id := range ihaveIDs {
		c := 0
		for _, f := range frags {
			for _, ih := range f.GetControl().GetIhave() {
				for _, x := range ih.GetMessageIDs() {
					if x == id && ih.GetTopicID() == topic {
						c++
					}
				}
			}
		}
		vpAssert(c == 1, "every IHAVE message ID appears in exactly one fragment, under its topic")
	}
	for _, id := range idwIDs {
		c := 0
		for _, f := range frags {
			for _, d := range f.GetControl().GetIdontwant() {
				for _, x := range d.GetMessageIDs() {
					if x == id {
						c++
					}
				}
			}
		}
		vpAssert(c == 1, "every IDONTWANT message ID appears in exactly one fragment")
	}
	if sh.ext {
		c := 0
		for _, f := range frags {
			if f.GetControl().GetExtensions() != nil {
				c++
			}
		}
		vpAssert(c == 1, "the extensions control message appears in exactly one fragment")
	}
	// (2) size limit, (3) no empty fragment
	for _, f := range frags {
		sz := f.Size()
		vpAssert(sz > 0, "no empty RPC is produced")
		elems := len(f.Publish) + len(f.Subscriptions)
		if c := f.GetControl(); c != nil {
			elems += len(c.Graft) + len(c.Prune)
			for _, iw := range c.Iwant {
				elems += len(iw.MessageIDs)
			}
			for _, ih := range c.Ihave {
				elems += len(ih.MessageIDs)
			}
			for _, d := range c.Idontwant {
				elems += len(d.MessageIDs)
			}
			if c.Extensions != nil {
				elems++
			}
		}
		vpAssert(sz <= limit || elems <= 1, "every fragment fits the limit unless it carries a single indivisible element")
	}
	vpCover(len(frags) >= 3, "three or more fragments")
	vpCover(limit > total, "limit beyond the RPC's own size")
}

func vpH_C11_split_msgs() {
	vpOpt("unwind", 8)
	vpSplitCheck(vpSplitShape{msgs: 2, subs: 1}, 300, 16, 400)
}

func vpH_C11_split_ctl() {
	vpOpt("unwind", 8)
	vpSplitCheck(vpSplitShape{subs: 1, grafts: 1, iwant: 2, idontwant: 1}, 40, 24, 120)
}
