//go:build verif

package pubsub

import (
	"time"

	pb "github.com/libp2p/go-libp2p-pubsub/pb"
	"github.com/libp2p/go-libp2p/core/peer"
)

// ---- C17 (continued): the IHAVE / IWANT / IDONTWANT handlers and the promise tracer, one step each from an arbitrary
// counter state (step-inductive form: the pre-state counters are solver variables)

func vpGossipParams() GossipSubParams {
	p := vpSmallParams()
	p.MaxIHaveLength = 3
	p.MaxIHaveMessages = 2
	p.GossipRetransmission = 2
	p.MaxIDontWantMessages = 2
	p.MaxIDontWantLength = 3
	p.IDontWantMessageTTL = 2
	p.IDontWantMessageThreshold = 2
	p.IWantFollowupTime = 5 * time.Second // (not the package default, so that a read of the global instead of the configured value shows)
	return p
}

// ihave: one IHAVE control message (two advertisements, symbolic lengths and topics, overlapping IDs, arbitrary seen
// state) against arbitrary per-heartbeat counters.
func vpH_C17_ihave() {
	vpOpt("unwind", 8)
	w := vpNewWorld(vpWorldCfg{P: 1, params: vpGossipParams(), scoring: true, noFanout: true})
	gs, ps := w.n.gs, w.n.ps
	vpAssume(w.up[0])
	p := w.peers[0]
	have0, asked0 := vpInt("peerhave_pre", 0, 3), vpInt("iasked_pre", 0, 4)
	if have0 > 0 {
		gs.peerhave[p] = have0
	}
	if asked0 > 0 {
		gs.iasked[p] = asked0
	}
	pool := []string{"m0", "m1", "m2", "m3"}
	var seen [4]bool
	for j := range pool {
		seen[j] = vpBool("seen")
		if seen[j] {
			ps.markSeen(pool[j])
		}
	}
	nA, nB := vpInt("ids_in_first_ihave", 0, 4), vpInt("ids_in_second_ihave", 0, 2)
	tAok, tBok := vpBool("first_topic_is_t0"), vpBool("second_topic_is_t0")
	tA, tB := "other", "other"
	if tAok {
		tA = vpT0
	}
	if tBok {
		tB = vpT0
	}
	listB := []string{"m3", "m0"}
	ctl := &pb.ControlMessage{Ihave: []*pb.ControlIHave{
		{TopicID: &tA, MessageIDs: pool[:nA]},
		{TopicID: &tB, MessageIDs: listB[:nB]},
	}}
	below := w.score[0] < gs.gossipThreshold
	now := time.Now()
	out := gs.handleIHave(p, ctl)

	// reference
	L := gs.params.MaxIHaveLength
	var want [4]bool
	total := 0
	for j := range pool {
		adv := w.joined && tAok && j < nA && j < L
		if j == 3 {
			adv = adv || (w.joined && tBok && nB >= 1)
		}
		if j == 0 {
			adv = adv || (w.joined && tBok && nB >= 2)
		}
		want[j] = adv && !seen[j]
		if want[j] {
			total++
		}
	}
	var got []string
	for _, iw := range out {
		got = append(got, iw.GetMessageIDs()...)
	}
	if below {
		vpAssert(len(got) == 0 && gs.peerhave[p] == have0 && gs.iasked[p] == asked0, "IHAVE below the gossip threshold: nothing requested, counters untouched")
	} else {
		vpAssert(gs.peerhave[p] == have0+1, "every honoured or refused IHAVE counts once towards MaxIHaveMessages")
		budget := L - asked0
		if have0+1 > gs.params.MaxIHaveMessages || budget <= 0 {
			budget = 0
		}
		exp := total
		if exp > budget {
			exp = budget
		}
		vpAssert(len(got) == exp, "the node requests min(unseen advertised IDs, what is left of MaxIHaveLength this heartbeat) and nothing beyond MaxIHaveMessages IHAVEs")
		vpAssert(gs.iasked[p] == asked0+exp, "the per-heartbeat count of requested IDs grows by exactly what was requested")
		for a, id := range got {
			ok := false
			for j := range pool {
				if id == pool[j] && want[j] {
					ok = true
				}
			}
			vpAssert(ok, "only unseen IDs advertised for a joined topic within the first MaxIHaveLength positions are requested")
			for b := 0; b < a; b++ {
				vpAssert(got[b] != id, "no ID is requested twice")
			}
		}
		// one promise is tracked per IWANT, for one of the requested IDs
		np := 0
		for mid, m := range gs.gossipTracer.promises {
			for q, exp := range m {
				np++
				in := false
				for _, id := range got {
					in = in || id == mid
				}
				vpAssert(q == p && in && exp.Equal(now.Add(gs.params.IWantFollowupTime)), "the tracked promise names the asked peer, a requested ID and expires after the follow-up time")
			}
		}
		vpAssert((np == 1) == (len(got) > 0) && np <= 1, "exactly one promise per IWANT sent")
	}
	vpCover(!below && len(got) == 2 && total == 4, "request truncated by the per-heartbeat budget")
	vpCover(!below && have0 == 2 && total > 0, "IHAVE beyond MaxIHaveMessages ignored")
	vpCover(!below && len(got) == 3, "three requested")
}

// iwant: K IWANT RPCs (symbolic contents with repetitions) against a cache holding one message of arbitrary age and
// one fresh one, an arbitrary earlier transmission count and an arbitrary IDONTWANT state.
func vpH_C17_iwant() {
	vpOpt("unwind", 8)
	w := vpNewWorld(vpWorldCfg{P: 1, params: vpGossipParams(), scoring: true, noFanout: true})
	gs := w.n.gs
	vpAssume(w.up[0])
	p := w.peers[0]
	msgs := []*Message{vpMkMsg("A", "1", vpT0), vpMkMsg("A", "2", vpT0)}
	ids := []string{"A1", "A2"}
	gs.mcache.Put(msgs[0])
	shifts := vpInt("age_of_first_message", 0, 3)
	for s := 0; s < shifts; s++ {
		gs.mcache.Shift()
	}
	gs.mcache.Put(msgs[1])
	cached := []bool{shifts < gs.params.HistoryLength, true}
	c0 := vpInt("earlier_transmissions", 0, 3)
	vpAssume(cached[0] || c0 == 0)
	cnt := []int{c0, 0}
	if c0 > 0 {
		gs.mcache.peertx["A1"] = map[peer.ID]int{p: c0}
	}
	unw := []bool{vpBool("declared_unwanted"), false}
	if unw[0] {
		gs.unwanted[p] = map[checksum]int{computeChecksum("A1"): 1}
	}
	below := w.score[0] < gs.gossipThreshold
	servedTimes := []int{0, 0}
	K := 3
	for k := 0; k < K; k++ {
		reqs := []string{"A1", "zz", "A1", "A2"}
		lo, hi := vpInt("request_from", 0, 3), vpInt("request_to", 0, 4)
		vpAssume(lo <= hi)
		req := reqs[lo:hi]
		out := gs.handleIWant(p, &pb.ControlMessage{Iwant: []*pb.ControlIWant{{MessageIDs: req}}})
		for j := range ids {
			occ := 0
			for _, r := range req {
				if r == ids[j] {
					occ++
				}
			}
			exp := !below && occ > 0 && cached[j] && !unw[j] && cnt[j] < gs.params.GossipRetransmission
			got := 0
			for _, m := range out {
				if m == msgs[j].Message {
					got++
				}
			}
			if exp {
				vpAssert(got == 1, "a cached, wanted message requested fewer than GossipRetransmission times before is served (once per RPC)")
				servedTimes[j]++
			} else {
				vpAssert(got == 0, "expired, unwanted, over-requested messages and requests from below the gossip threshold are not served")
			}
			if !below && cached[j] && !unw[j] {
				cnt[j] += occ
			}
		}
		vpAssert(len(out) <= 2, "nothing but the cached messages is served")
	}
	vpAssert(c0+servedTimes[0] <= gs.params.GossipRetransmission || servedTimes[0] == 0, "a peer is served the same message at most GossipRetransmission times")
	vpCover(servedTimes[0] == 2, "served up to the retransmission limit")
	vpCover(unw[0] && !below, "unwanted")
}

// idontwant: one IDONTWANT control message against arbitrary counters, then the heartbeats that age it out.
func vpH_C17_idontwant() {
	vpOpt("unwind", 8)
	nd := vpNewNode("self", vpNodeCfg{router: "gossipsub", params: func() *GossipSubParams { p := vpGossipParams(); return &p }()})
	gs := nd.gs
	p := peer.ID("p0")
	nd.vpAddPeer(p, GossipSubID_v12, true)
	d0 := vpInt("peerdontwant_pre", 0, 3)
	if d0 > 0 {
		gs.peerdontwant[p] = d0
	}
	old := vpBool("older_entry_present")
	if old {
		gs.unwanted[p] = map[checksum]int{computeChecksum("old"): 1}
	}
	la, lb := []string{"a", "b", "c"}, []string{"d", "e"}
	nA, nB := vpInt("ids_in_first", 0, 3), vpInt("ids_in_second", 0, 2)
	ctl := &pb.ControlMessage{Idontwant: []*pb.ControlIDontWant{{MessageIDs: la[:nA]}, {MessageIDs: lb[:nB]}}}
	gs.handleIDontWant(p, ctl)
	all := []string{"a", "b", "c", "d", "e"}
	pos := []int{0, 1, 2, nA, nA + 1} // position of each ID in the message, when present
	present := []bool{nA > 0, nA > 1, nA > 2, nB > 0, nB > 1}
	honoured := d0 < gs.params.MaxIDontWantMessages
	for j, id := range all {
		ttl, ok := gs.unwanted[p][computeChecksum(id)]
		exp := honoured && present[j] && pos[j] < gs.params.MaxIDontWantLength
		vpAssert(ok == exp, "exactly the first MaxIDontWantLength IDs of an honoured IDONTWANT are recorded; beyond MaxIDontWantMessages per heartbeat nothing is")
		vpAssert(!ok || ttl == gs.params.IDontWantMessageTTL, "recorded with the configured TTL")
	}
	if honoured {
		vpAssert(gs.peerdontwant[p] == d0+1, "an honoured IDONTWANT counts once")
	} else {
		vpAssert(gs.peerdontwant[p] == d0, "a refused IDONTWANT leaves the counter alone")
	}
	_, oldThere := gs.unwanted[p][computeChecksum("old")]
	vpAssert(oldThere == old, "older entries are kept")
	// heartbeats
	_, aThere := gs.unwanted[p][computeChecksum("a")]
	gs.clearIDontWantCounters()
	vpAssert(len(gs.peerdontwant) == 0, "the per-heartbeat IDONTWANT counter is reset by the heartbeat")
	_, oldThere = gs.unwanted[p][computeChecksum("old")]
	_, aThere1 := gs.unwanted[p][computeChecksum("a")]
	vpAssert(!oldThere && aThere1 == aThere, "an entry lives for exactly its TTL in heartbeats (TTL 1 gone, TTL 2 still there)")
	gs.clearIDontWantCounters()
	_, aThere2 := gs.unwanted[p][computeChecksum("a")]
	_, pThere := gs.unwanted[p]
	vpAssert(!aThere2 && !pThere, "after TTL heartbeats the IDONTWANT is forgotten and the peer's table released")
	vpCover(honoured && nA+nB == 5, "more IDs than MaxIDontWantLength")
	vpCover(!honoured && nA > 0, "refused")
}

// preprocess: IDONTWANT goes out only for messages at/above the size threshold, to mesh peers speaking v1.2+, never to
// the sender.
func vpH_C17_preprocess() {
	vpOpt("unwind", 8)
	w := vpNewWorld(vpWorldCfg{P: 3, params: vpGossipParams(), noFanout: true})
	gs := w.n.gs
	fi := vpInt("sender", 0, 3)
	from := peer.ID("someone-else")
	if fi < 3 {
		from = w.peers[fi]
	}
	l0, l1 := vpInt("size_of_first", 0, 3), vpInt("size_of_second", 0, 3)
	m0, m1 := vpMkMsg("A", "1", vpT0), vpMkMsg("A", "2", vpT0)
	m0.Data, m1.Data = make([]byte, l0), make([]byte, l1)
	gs.Preprocess(from, []*Message{m0, m1})
	thr := gs.params.IDontWantMessageThreshold
	big := 0
	if l0 >= thr {
		big++
	}
	if l1 >= thr {
		big++
	}
	for i := range w.peers {
		exp := 0
		if w.mesh[i] && w.proto[i] >= 3 && fi != i {
			exp = big
		}
		ids := map[string]bool{}
		n := 0
		if !w.up[i] {
			continue
		}
		for _, r := range vpDrain(w.q[i]) {
			for _, d := range r.GetControl().GetIdontwant() {
				for _, id := range d.GetMessageIDs() {
					ids[id] = true
					n++
				}
			}
		}
		vpAssert(n == exp, "IDONTWANT is sent exactly to mesh peers speaking v1.2 or later other than the sender, for exactly the messages at or above the size threshold")
		if exp > 0 {
			vpAssert(ids["A1"] == (l0 >= thr) && ids["A2"] == (l1 >= thr), "the IDs named are those of the large messages")
		}
	}
	vpCover(big == 1 && w.mesh[0] && w.proto[0] >= 3 && fi != 0, "one large message announced")
	vpCover(w.mesh[1] && w.proto[1] == 2, "mesh peer speaking v1.1")
}

// promises: K symbolic operations on the real promise tracker against a ghost table.
func vpPromiseHist(K int) {
	gt := newGossipTracer()
	gt.followUpTime = 3 * time.Second
	peers := []peer.ID{"p0", "p1"}
	ids := []string{"A1", "A2"}
	msgs := []*Message{vpMkMsg("A", "1", vpT0), vpMkMsg("A", "2", vpT0)}
	var has [2][2]bool // [msg][peer]
	var exp [2][2]time.Time
	penal := [2]int{}
	for k := 0; k < K; k++ {
		op, mi, pi, dt := vpInt("op", 0, 6), vpInt("msg", 0, 1), vpInt("peer", 0, 1), vpInt("dt", 0, 2)
		rr := vpInt("reject_reason", 0, 8)
		switch op {
		case 0:
			gt.AddPromise(peers[pi], []string{ids[mi]})
			if !has[mi][pi] {
				has[mi][pi] = true
				exp[mi][pi] = time.Now().Add(gt.followUpTime)
			}
		case 1, 2, 3:
			switch op {
			case 1:
				gt.DeliverMessage(msgs[mi])
			case 2:
				gt.ValidateMessage(msgs[mi])
			case 3:
				// a copy arrived and was turned down for a reason that has nothing to do with a forged signature - also when
				// OUR side dropped it (validation queue full, throttled): the peer kept its promise
				arrived := []string{RejectValidationFailed, RejectValidationIgnored, RejectValidationQueueFull, RejectValidationThrottled,
					RejectBlacklstedPeer, RejectBlacklistedSource, RejectUnexpectedSignature, RejectUnexpectedAuthInfo, RejectSelfOrigin}
				gt.RejectMessage(msgs[mi], arrived[rr])
			}
			has[mi] = [2]bool{} // the message arrived, from anyone: every promise for it is void
		case 4:
			// an obviously invalid copy (signature missing or wrong) fulfils nothing
			gt.RejectMessage(msgs[mi], []string{RejectInvalidSignature, RejectMissingSignature}[rr%2])
		case 5:
			vpAdvance([]time.Duration{time.Second, 3 * time.Second, 4 * time.Second}[dt])
		case 6:
			gt.ThrottlePeer(peers[pi])
			has[0][pi], has[1][pi] = false, false
		}
		if vpBool("collect") {
			now := time.Now()
			res := gt.GetBrokenPromises()
			for q := range peers {
				want := 0
				for m := range ids {
					if has[m][q] && exp[m][q].Before(now) {
						want++
						has[m][q] = false
					}
				}
				vpAssert(res[peers[q]] == want, "a peer is charged exactly for its promises that expired with the message not having arrived from anyone")
				penal[q] += want
			}
		}
	}
	// index consistency
	for m := range ids {
		for q := range peers {
			_, a := gt.promises[ids[m]][peers[q]]
			_, b := gt.peerPromises[peers[q]][ids[m]]
			vpAssert(a == has[m][q] && b == has[m][q], "the promise table and its per-peer index agree with the outstanding promises")
		}
	}
	vpCover(penal[0] == 2, "two broken promises charged to one peer")
	vpCover(penal[0] == 0 && penal[1] == 0 && !has[0][0] && !has[1][0], "none charged")
}

func vpH_C17_promises()  { vpPromiseHist(4) }
func vpHT_C17_promises() { vpPromiseHist(5) }

// penalty: applyIwantPenalties charges exactly the broken promises to the behaviour-penalty counter.
func vpH_C17_promise_penalty() {
	w := vpNewWorld(vpWorldCfg{P: 2, params: vpGossipParams(), scoring: true, noFanout: true})
	gs := w.n.gs
	vpAssume(w.up[0] && w.up[1])
	gs.gossipTracer.AddPromise(w.peers[0], []string{"A1"})
	gs.gossipTracer.AddPromise(w.peers[1], []string{"A1"})
	gs.gossipTracer.AddPromise(w.peers[0], []string{"A2"})
	arrived := vpBool("first_message_arrived")
	dt := vpInt("dt", 0, 2)
	vpAdvance([]time.Duration{time.Second, 5 * time.Second, 5*time.Second + 1}[dt])
	if arrived {
		gs.gossipTracer.ValidateMessage(vpMkMsg("A", "1", vpT0))
	}
	b0 := gs.score.peerStats[w.peers[0]].behaviourPenalty
	b1 := gs.score.peerStats[w.peers[1]].behaviourPenalty
	gs.applyIwantPenalties()
	a0 := gs.score.peerStats[w.peers[0]].behaviourPenalty
	a1 := gs.score.peerStats[w.peers[1]].behaviourPenalty
	e0, e1 := 0.0, 0.0
	if dt == 2 {
		e0 = 1
		if !arrived {
			e0, e1 = 2, 1
		}
	}
	vpAssert(a0 == b0+e0 && a1 == b1+e1, "the behaviour penalty grows by exactly the number of promises broken (expired strictly after the follow-up time, message not arrived)")
	vpCover(dt == 2 && !arrived, "both peers charged")
}

// windows: across real heartbeats a forwarded message is advertised (IHAVE to a non-mesh topic peer) during exactly the
// first HistoryGossip heartbeats, served on IWANT during exactly HistoryLength heartbeats, and the per-heartbeat
// flood-protection counters are reset by every heartbeat.
func vpH_C17_windows() {
	vpOpt("unwind", 10)
	w := vpNewWorld(vpWorldCfg{P: 1, params: vpGossipParams(), noFanout: true})
	gs := w.n.gs
	p := w.peers[0]
	vpAssume(w.joined && w.up[0] && w.inTopic[0] && w.capable(0) && !w.mesh[0] && !w.direct[0])
	gs.backoff[vpT0] = map[peer.ID]time.Time{p: time.Now().Add(time.Hour)} // (keeps the peer out of the mesh: it stays a gossip target)
	m := vpMkMsg("A", "1", vpT0)
	m.ReceivedFrom = "self"
	gs.mcache.Put(m)
	gs.peerhave[p], gs.iasked[p], gs.peerdontwant[p] = 1, 2, 1
	for h := 0; h <= gs.params.HistoryLength; h++ {
		_, ok := gs.mcache.Get("A1")
		vpAssert(ok == (h < gs.params.HistoryLength), "retrievable for exactly HistoryLength heartbeats")
		gs.heartbeat()
		adv := 0
		for _, r := range vpDrain(w.q[0]) {
			for _, ih := range r.GetControl().GetIhave() {
				for _, id := range ih.GetMessageIDs() {
					if id == "A1" {
						adv++
					}
				}
			}
		}
		want := 0
		if h < gs.params.HistoryGossip {
			want = 1
		}
		vpAssert(adv == want, "advertised once per heartbeat during exactly the first HistoryGossip heartbeats")
		vpAssert(len(gs.peerhave) == 0 && len(gs.iasked) == 0 && len(gs.peerdontwant) == 0, "every heartbeat resets the IHAVE / IWANT / IDONTWANT flood counters")
		gs.peerhave[p], gs.iasked[p], gs.peerdontwant[p] = 1, 2, 1
	}
	vpCover(true, "ran")
}

// emit: the recipient rule of IHAVE gossip (shared with C09_emit): only non-mesh, non-direct, mesh-capable topic peers at
// or above the GOSSIP threshold, at most MaxIHaveLength IDs per advertisement.
func vpH_C17_emit() { vpH_C09_emit() }
