//go:build verif

package pubsub

import (
	"context"

	"github.com/libp2p/go-libp2p/core/peer"
)

// ---- C14: after shutdown every API call returns -----------------------------------------------------------
//
// The instance context is cancelled, the REAL processLoop runs to its exit (closing the queues), and then public
// API calls are issued: none may block. The sequential engine decides "blocks" structurally: a channel operation
// with no enabled alternative (no receiver exists any more, buffers fill up, ctx.Done is enabled) ends the path as
// blocked. Calls in progress at the moment of cancellation and goroutine exit are NOT covered (see DESIGN.md).

func vpH_C14_api_after_shutdown() {
	vpOpt("unwind", 6)
	nd := vpNewNode("self", vpNodeCfg{router: "gossipsub"})
	ps := nd.ps
	// a topic joined and a subscription taken while the node was alive
	t := &Topic{p: ps, topic: vpT0, evtHandlers: map[*TopicEventHandler]struct{}{}}
	ps.myTopics[vpT0] = t
	sub := &Subscription{topic: vpT0, ch: make(chan *Message, 2), cancelCh: ps.cancelCh, ctx: ps.ctx}
	ps.mySubs[vpT0] = map[*Subscription]struct{}{sub: {}}
	nd.vpAddPeer("p0", GossipSubID_v11, true)
	// shutdown
	nd.cancel()
	exited := !vpBlocks(func() { ps.processLoop(ps.ctx) })
	vpAssert(exited, "the event loop exits once the context is cancelled")
	ctx := context.Background()
	// calls issued after cancellation: each returns (error or benign result) instead of blocking forever
	var err error
	switch vpInt("api", 0, 13) {
	case 0:
		vpAssert(!vpBlocks(func() { _, err = ps.Join("t1") }), "Join returns after shutdown")
		vpAssert(err != nil, "Join reports the shutdown")
	case 1:
		vpAssert(!vpBlocks(func() { _, err = t.Subscribe() }), "Subscribe returns after shutdown")
		vpAssert(err != nil, "Subscribe reports the shutdown")
	case 2:
		vpAssert(!vpBlocks(func() { _, err = t.Relay() }), "Relay returns after shutdown")
	case 3:
		n := vpInt("publishes", 1, 3)
		for i := 0; i < 3; i++ {
			if i < n {
				vpAssert(!vpBlocks(func() { err = t.Publish(ctx, []byte("x")) }), "Publish returns after shutdown")
			}
		}
	case 4:
		// PublishBatch hands the batch over on a channel of capacity 1: every call must return, not only the first
		for i := 0; i < 3; i++ {
			b := &MessageBatch{}
			vpAssert(!vpBlocks(func() { err = t.AddToBatch(ctx, b, []byte("x")) }), "AddToBatch returns after shutdown")
			vpAssert(!vpBlocks(func() { err = ps.PublishBatch(b) }), "PublishBatch returns after shutdown (every call, not only the first)")
		}
	case 5:
		vpAssert(!vpBlocks(func() { ps.ListPeers(vpT0) }), "ListPeers returns after shutdown")
	case 6:
		vpAssert(!vpBlocks(func() { ps.GetTopics() }), "GetTopics returns after shutdown")
	case 7:
		vpAssert(!vpBlocks(func() { ps.BlacklistPeer("p0") }), "BlacklistPeer returns after shutdown")
	case 8:
		vpAssert(!vpBlocks(func() {
			err = ps.RegisterTopicValidator(vpT0, func(context.Context, peer.ID, *Message) bool { return true })
		}), "RegisterTopicValidator returns after shutdown")
	case 9:
		vpAssert(!vpBlocks(func() { err = ps.UnregisterTopicValidator(vpT0) }), "UnregisterTopicValidator returns after shutdown")
	case 10:
		vpAssert(!vpBlocks(func() { _, err = t.EventHandler() }), "EventHandler returns after shutdown")
	case 11:
		vpAssert(!vpBlocks(func() { err = t.Close() }), "Topic.Close returns after shutdown")
	case 12:
		vpAssert(!vpBlocks(func() { sub.Cancel() }), "Subscription.Cancel returns after shutdown")
	case 13:
		vpAssert(!vpBlocks(func() { err = t.SetScoreParams(&TopicScoreParams{TopicWeight: 1, TimeInMeshQuantum: 1, SkipAtomicValidation: true}) }), "SetScoreParams returns after shutdown")
	}
	vpCover(true, "ran")
}
