//go:build verif

package pubsub

import (
	"context"

	"github.com/libp2p/go-libp2p/core/peer"
)

// ---- C14: after shutdown every API call returns -----------------------------------------------------------
//
// The instance context is cancelled, the REAL processLoop runs to its exit (closing the queues), and then public
// API calls are issued: none may block. The sequential engine decides "blocks" structurally: a channel operation
// with no enabled alternative (no receiver exists any more, buffers fill up, ctx.Done is enabled) ends the path as
// blocked. Calls in progress at the moment of cancellation and goroutine exit are NOT covered (see DESIGN.md).

func vpH_C14_api_after_shutdown() {
	vpOpt("unwind", 6)
	nd := vpNewNode("self", vpNodeCfg{router: "gossipsub"})
	ps := nd.ps
	// a topic joined and a subscription taken while the node was alive
	t := &Topic{p: ps, topic: vpT0, evtHandlers: map[*TopicEventHandler]struct{}{}}
	ps.myTopics[vpT0] = t
	sub := &Subscription{topic: vpT0, ch: make(chan *Message, 2), cancelCh: ps.cancelCh, ctx: ps.ctx}
	ps.mySubs[vpT0] = map[*Subscription]struct{}{sub: {}}
	nd.vpAddPeer("p0", GossipSubID_v11, true)
	// a relay reference taken while the node was alive (its cancel function is called after shutdown)
	relayResp := make(chan RelayCancelFunc, 1)
	ps.handleAddRelay(&addRelayReq{topic: "t-relay", resp: relayResp})
	relayCancel := <-relayResp
	// shutdown
	nd.cancel()
	exited := !vpBlocks(func() { ps.processLoop(ps.ctx) })
	vpAssert(exited, "the event loop exits once the context is cancelled")
	ctx := context.Background()
	// calls issued after cancellation: each returns (error or benign result) instead of blocking forever
	var err error
	switch vpInt("api", 0, 14) {
	case 14:
		vpAssert(!vpBlocks(func() { relayCancel() }), "a relay cancel function returns after shutdown")
		vpAssert(!vpBlocks(func() { relayCancel() }), "a relay cancel function may be called twice")
	case 0:
		vpAssert(!vpBlocks(func() { _, err = ps.Join("t1") }), "Join returns after shutdown")
		vpAssert(err != nil, "Join reports the shutdown")
	case 1:
		vpAssert(!vpBlocks(func() { _, err = t.Subscribe() }), "Subscribe returns after shutdown")
		vpAssert(err != nil, "Subscribe reports the shutdown")
	case 2:
		vpAssert(!vpBlocks(func() { _, err = t.Relay() }), "Relay returns after shutdown")
	case 3:
		n := vpInt("publishes", 1, 3)
		for i := 0; i < 3; i++ {
			if i < n {
				vpAssert(!vpBlocks(func() { err = t.Publish(ctx, []byte("x")) }), "Publish returns after shutdown")
			}
		}
	case 4:
		// PublishBatch hands the batch over on a channel of capacity 1: every call must return, not only the first
		for i := 0; i < 3; i++ {
			b := &MessageBatch{}
			vpAssert(!vpBlocks(func() { err = t.AddToBatch(ctx, b, []byte("x")) }), "AddToBatch returns after shutdown")
			vpAssert(!vpBlocks(func() { err = ps.PublishBatch(b) }), "PublishBatch returns after shutdown (every call, not only the first)")
		}
	case 5:
		vpAssert(!vpBlocks(func() { ps.ListPeers(vpT0) }), "ListPeers returns after shutdown")
	case 6:
		vpAssert(!vpBlocks(func() { ps.GetTopics() }), "GetTopics returns after shutdown")
	case 7:
		vpAssert(!vpBlocks(func() { ps.BlacklistPeer("p0") }), "BlacklistPeer returns after shutdown")
	case 8:
		vpAssert(!vpBlocks(func() {
			err = ps.RegisterTopicValidator(vpT0, func(context.Context, peer.ID, *Message) bool { return true })
		}), "RegisterTopicValidator returns after shutdown")
	case 9:
		vpAssert(!vpBlocks(func() { err = ps.UnregisterTopicValidator(vpT0) }), "UnregisterTopicValidator returns after shutdown")
	case 10:
		vpAssert(!vpBlocks(func() { _, err = t.EventHandler() }), "EventHandler returns after shutdown")
	case 11:
		vpAssert(!vpBlocks(func() { err = t.Close() }), "Topic.Close returns after shutdown")
	case 12:
		vpAssert(!vpBlocks(func() { sub.Cancel() }), "Subscription.Cancel returns after shutdown")
	case 13:
		vpAssert(!vpBlocks(func() { err = t.SetScoreParams(&TopicScoreParams{TopicWeight: 1, TimeInMeshQuantum: 1, SkipAtomicValidation: true}) }), "SetScoreParams returns after shutdown")
	}
	vpCover(true, "ran")
}

// publish_buffer_full: the hand-off buffer from validation to the event loop is full at the moment of shutdown
// (more than 32 messages in flight): Publish and the validation goroutines still return.
func vpH_C14_publish_buffer_full() {
	vpOpt("unwind", 40)
	nd := vpNewNode("self", vpNodeCfg{router: "gossipsub"})
	ps := nd.ps
	t := &Topic{p: ps, topic: vpT0, evtHandlers: map[*TopicEventHandler]struct{}{}}
	ps.myTopics[vpT0] = t
	for i := 0; i < 32; i++ {
		ps.sendMsg <- vpMkMsg("self", "0", vpT0)
	}
	nd.cancel()
	// (the loop may still take one message before it sees the cancellation; either way nobody drains the buffer afterwards)
	ctx := context.Background()
	var err error
	for i := 0; i < 3; i++ {
		vpAssert(!vpBlocks(func() { err = t.Publish(ctx, []byte("x")) }), "Publish returns after shutdown even when the hand-off buffer to the event loop is full")
	}
	vpAssert(err != nil, "Publish reports the shutdown once the buffer is full")
	// a validation goroutine (or a Publish past its last check) that was in flight at the moment of shutdown releases its
	// message to the event loop through the same hand-off: it must return as well
	vpAssert(!vpBlocks(func() { err = ps.val.sendMsgBlocking(vpMkMsg("self", "1", vpT0)) }), "the hand-off of a validated message to the event loop returns after shutdown even when its buffer is full")
	vpCover(true, "ran")
}
