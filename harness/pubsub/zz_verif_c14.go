//go:build verif

package pubsub

import (
	"context"
	"time"

	"github.com/libp2p/go-libp2p/core/peer"
)

// ---- C14: after shutdown every API call returns -----------------------------------------------------------
//
// The instance context is cancelled, the REAL processLoop runs to its exit (closing the queues), and then public
// API calls are issued: none may block. The sequential engine decides "blocks" structurally: a channel operation
// with no enabled alternative (no receiver exists any more, buffers fill up, ctx.Done is enabled) ends the path as
// blocked. Calls in progress at the moment of cancellation and goroutine exit are NOT covered (see DESIGN.md).

func vpH_C14_api_after_shutdown() {
	vpOpt("unwind", 6)
	nd := vpNewNode("self", vpNodeCfg{router: "gossipsub"})
	ps := nd.ps
	// a topic joined and a subscription taken while the node was alive
	t := &Topic{p: ps, topic: vpT0, evtHandlers: map[*TopicEventHandler]struct{}{}}
	ps.myTopics[vpT0] = t
	sub := &Subscription{topic: vpT0, ch: make(chan *Message, 2), cancelCh: ps.cancelCh, ctx: ps.ctx}
	ps.mySubs[vpT0] = map[*Subscription]struct{}{sub: {}}
	nd.vpAddPeer("p0", GossipSubID_v11, true)
	// a relay reference taken while the node was alive (its cancel function is called after shutdown)
	relayResp := make(chan RelayCancelFunc, 1)
	ps.handleAddRelay(&addRelayReq{topic: "t-relay", resp: relayResp})
	relayCancel := <-relayResp
	// shutdown
	nd.cancel()
	exited := !vpBlocks(func() { ps.processLoop(ps.ctx) })
	vpAssert(exited, "the event loop exits once the context is cancelled")
	ctx := context.Background()
	// calls issued after cancellation: each returns (error or benign result) instead of blocking forever
	var err error
	switch vpInt("api", 0, 16) {
	case 15:
		// Publish with a readiness predicate and no discovery service polls the event loop: the poll must notice the shutdown
		// although the caller's own context never ends
		notReady := func(rt PubSubRouter, topic string) (bool, error) { return false, nil }
		vpAssert(!vpBlocks(func() { err = t.Publish(ctx, []byte("x"), WithReadiness(notReady)) }), "Publish WithReadiness (no discovery) returns after shutdown")
		vpAssert(err != nil, "Publish WithReadiness reports the shutdown")
	case 16:
		notReady := func(rt PubSubRouter, topic string) (bool, error) { return false, nil }
		b := &MessageBatch{}
		vpAssert(!vpBlocks(func() { err = t.AddToBatch(ctx, b, []byte("x"), WithReadiness(notReady)) }), "AddToBatch WithReadiness (no discovery) returns after shutdown")
		vpAssert(err != nil, "AddToBatch WithReadiness reports the shutdown")
	case 14:
		vpAssert(!vpBlocks(func() { relayCancel() }), "a relay cancel function returns after shutdown")
		vpAssert(!vpBlocks(func() { relayCancel() }), "a relay cancel function may be called twice")
	case 0:
		vpAssert(!vpBlocks(func() { _, err = ps.Join("t1") }), "Join returns after shutdown")
		vpAssert(err != nil, "Join reports the shutdown")
	case 1:
		vpAssert(!vpBlocks(func() { _, err = t.Subscribe() }), "Subscribe returns after shutdown")
		vpAssert(err != nil, "Subscribe reports the shutdown")
	case 2:
		vpAssert(!vpBlocks(func() { _, err = t.Relay() }), "Relay returns after shutdown")
	case 3:
		n := vpInt("publishes", 1, 3)
		for i := 0; i < 3; i++ {
			if i < n {
				vpAssert(!vpBlocks(func() { err = t.Publish(ctx, []byte("x")) }), "Publish returns after shutdown")
			}
		}
	case 4:
		// PublishBatch hands the batch over on a channel of capacity 1: every call must return, not only the first
		for i := 0; i < 3; i++ {
			b := &MessageBatch{}
			vpAssert(!vpBlocks(func() { err = t.AddToBatch(ctx, b, []byte("x")) }), "AddToBatch returns after shutdown")
			vpAssert(!vpBlocks(func() { err = ps.PublishBatch(b) }), "PublishBatch returns after shutdown (every call, not only the first)")
		}
	case 5:
		vpAssert(!vpBlocks(func() { ps.ListPeers(vpT0) }), "ListPeers returns after shutdown")
	case 6:
		vpAssert(!vpBlocks(func() { ps.GetTopics() }), "GetTopics returns after shutdown")
	case 7:
		vpAssert(!vpBlocks(func() { ps.BlacklistPeer("p0") }), "BlacklistPeer returns after shutdown")
	case 8:
		vpAssert(!vpBlocks(func() {
			err = ps.RegisterTopicValidator(vpT0, func(context.Context, peer.ID, *Message) bool { return true })
		}), "RegisterTopicValidator returns after shutdown")
	case 9:
		vpAssert(!vpBlocks(func() { err = ps.UnregisterTopicValidator(vpT0) }), "UnregisterTopicValidator returns after shutdown")
	case 10:
		vpAssert(!vpBlocks(func() { _, err = t.EventHandler() }), "EventHandler returns after shutdown")
	case 11:
		vpAssert(!vpBlocks(func() { err = t.Close() }), "Topic.Close returns after shutdown")
	case 12:
		vpAssert(!vpBlocks(func() { sub.Cancel() }), "Subscription.Cancel returns after shutdown")
	case 13:
		vpAssert(!vpBlocks(func() { err = t.SetScoreParams(&TopicScoreParams{TopicWeight: 1, TimeInMeshQuantum: 1, SkipAtomicValidation: true}) }), "SetScoreParams returns after shutdown")
	}
	vpCover(true, "ran")
}

// publish_buffer_full: the hand-off buffer from validation to the event loop is full at the moment of shutdown
// (more than 32 messages in flight): Publish and the validation goroutines still return.
func vpH_C14_publish_buffer_full() {
	vpOpt("unwind", 40)
	nd := vpNewNode("self", vpNodeCfg{router: "gossipsub"})
	ps := nd.ps
	t := &Topic{p: ps, topic: vpT0, evtHandlers: map[*TopicEventHandler]struct{}{}}
	ps.myTopics[vpT0] = t
	for i := 0; i < 32; i++ {
		ps.sendMsg <- vpMkMsg("self", "0", vpT0)
	}
	nd.cancel()
	// (the loop may still take one message before it sees the cancellation; either way nobody drains the buffer afterwards)
	ctx := context.Background()
	var err error
	for i := 0; i < 3; i++ {
		vpAssert(!vpBlocks(func() { err = t.Publish(ctx, []byte("x")) }), "Publish returns after shutdown even when the hand-off buffer to the event loop is full")
	}
	vpAssert(err != nil, "Publish reports the shutdown once the buffer is full")
	// a validation goroutine (or a Publish past its last check) that was in flight at the moment of shutdown releases its
	// message to the event loop through the same hand-off: it must return as well
	vpAssert(!vpBlocks(func() { err = ps.val.sendMsgBlocking(vpMkMsg("self", "1", vpT0)) }), "the hand-off of a validated message to the event loop returns after shutdown even when its buffer is full")
	vpCover(true, "ran")
}


// retry_goroutine_exits: an interest announcement hit a full outbound queue, so the library started an announce-retry
// goroutine (sleeping up to a second); the context is cancelled and the event loop exits BEFORE that goroutine wakes up:
// it must still terminate (nobody receives on the eval channel any more) - the "every library goroutine exits" clause for
// the one goroutine the library starts outside its constructors.
func vpH_C14_retry_goroutine_exits() {
	nd := vpNewNode("self", vpNodeCfg{router: "floodsub", queue: 1})
	ps := nd.ps
	q := nd.vpAddPeer("obs", FloodSubID, true)
	q.Push(&RPC{}, false) // the queue is full when interest is announced
	if vpBool("interest_is_a_relay") {
		ps.handleAddRelay(&addRelayReq{topic: vpT0, resp: make(chan RelayCancelFunc, 1)})
	} else {
		sub := &Subscription{topic: vpT0, ch: make(chan *Message, 1), ctx: ps.ctx}
		ps.handleAddSubscription(&addSubReq{sub: sub, resp: make(chan *Subscription, 1)})
	}
	nd.cancel()
	exited := !vpBlocks(func() { ps.processLoop(ps.ctx) })
	vpAssert(exited, "the event loop exits once the context is cancelled")
	time.Sleep(2 * time.Second) // (the retry goroutine's jitter sleep is over)
	vpAssert(!vpFireAllBlocked(), "the announce-retry goroutine terminates although the event loop is gone")
	vpCover(true, "ran")
}

// publish_in_flight: a Publish / AddToBatch+PublishBatch call that is IN PROGRESS when the context is cancelled: the call
// has passed its last look at the event loop and sits in the application's (synchronous) topic validator at the moment of
// cancellation — the validator itself performs the shutdown — while the hand-off buffer to the event loop holds a symbolic
// number of messages up to its capacity of 32. The caller's own context never ends. The call must still return.
func vpH_C14_publish_in_flight() {
	vpOpt("unwind", 40)
	nd := vpNewNode("self", vpNodeCfg{router: "gossipsub"})
	ps := nd.ps
	ps.eval = make(chan func(), 4) // (the loop is busy: thunks are accepted but not yet run)
	t := &Topic{p: ps, topic: vpT0, evtHandlers: map[*TopicEventHandler]struct{}{}}
	ps.myTopics[vpT0] = t
	full := vpBool("handoff_buffer_full")
	for i := 0; i < 32; i++ {
		if full || i < 31 {
			ps.sendMsg <- vpMkMsg("self", "0", vpT0)
		}
	}
	v, err := ps.val.makeValidator(&addValReq{topic: vpT0, validate: func(ctx context.Context, p peer.ID, m *Message) ValidationResult {
		nd.cancel() // shutdown happens while the publication is being validated
		return ValidationAccept
	}}, ps.logger)
	vpAssume(err == nil)
	ps.val.topicVals[vpT0] = v
	ctx := context.Background()
	batch := vpBool("via_batch")
	if batch {
		b := &MessageBatch{}
		vpAssert(!vpBlocks(func() { err = t.AddToBatch(ctx, b, []byte("x")) }), "AddToBatch in progress at the moment of cancellation returns")
		vpAssert(!vpBlocks(func() { err = ps.PublishBatch(b) }), "PublishBatch after such an AddToBatch returns")
	} else {
		vpAssert(!vpBlocks(func() { err = t.Publish(ctx, []byte("x")) }), "a Publish in progress at the moment of cancellation returns although the hand-off buffer is full and the caller's context never ends")
		if full {
			vpAssert(err != nil, "it reports the shutdown when the message could not be handed over")
		}
	}
	vpCover(full && !batch, "buffer full, plain Publish")
	vpCover(!full && batch, "room left, batch")
}

// loops_exit: blocking-structure audit of the loop goroutines the CONSTRUCTORS start (heartbeat timer, validation worker,
// PX connector, dead-peer backoff cleaner): each is run with the instance context already cancelled, its ticker holding a
// tick, and the event loop gone (its hand-off channel accepts one more item and then nobody receives): on EVERY path
// through its selects (the engine takes every enabled case of a select as an alternative) the goroutine returns - no
// hand-off to the event loop is attempted without watching the context. Engine-only: which of several ready select cases
// a native run takes cannot be steered.
func vpH_C14_loops_exit() {
	vpOpt("native", 0)
	vpOpt("unwind", 6)
	nd := vpNewNode("self", vpNodeCfg{router: "gossipsub"})
	ps, gs := nd.ps, nd.gs
	ps.eval = make(chan func(), 1) // (accepts one thunk - e.g. the initial heartbeat - and then nobody receives)
	nd.cancel()
	which := vpInt("goroutine", 0, 3)
	blocked := false
	switch which {
	case 0:
		blocked = vpBlocksWithTick(func() { gs.heartbeatTimer() }, gs.params.HeartbeatInterval)
	case 1:
		blocked = vpBlocksWithTick(func() { ps.val.validateWorker() }, time.Second)
	case 2:
		blocked = vpBlocksWithTick(func() { gs.connector() }, time.Second)
	case 3:
		blocked = vpBlocksWithTick(func() { ps.deadPeerBackoff.cleanupLoop(ps.ctx) }, BackoffCleanupInterval)
	}
	vpAssert(!blocked, "a loop goroutine started by the constructors returns once the context is cancelled, on every path through its selects, although the event loop no longer receives")
	vpCover(which == 0, "heartbeat timer")
	vpCover(which == 3, "backoff cleaner")
}
