//go:build verif

package pubsub

import (
	"time"

	"github.com/libp2p/go-libp2p/core/peer"
)

// ---- C10: peer scores equal the GossipSub v1.1 scoring function ------------------------------------

const vpBig = 1e12 // magnitude bound of the quick tier (overflow to +-Inf excluded; stated in DESIGN.md)

func vpBounded(x float64) bool { return x == x && x <= vpBig && x >= -vpBig }

// vpNotHuge bounds the magnitude only (NaN passes: whether a NaN parameter is possible is up to the real validation)
func vpNotHuge(x float64) bool { return !(x > vpBig) && !(x < -vpBig) }

// vpArbTopicParams: symbolic TopicScoreParams assumed accepted by the REAL validate().
func vpArbTopicParams() *TopicScoreParams {
	tp := &TopicScoreParams{
		SkipAtomicValidation:            vpBool("topic_skip_atomic"),
		TopicWeight:                     vpFloat("TopicWeight"),
		TimeInMeshWeight:                vpFloat("TimeInMeshWeight"),
		TimeInMeshQuantum:               time.Duration(vpInt("TimeInMeshQuantum", -4, 1<<20)),
		TimeInMeshCap:                   vpFloat("TimeInMeshCap"),
		FirstMessageDeliveriesWeight:    vpFloat("FirstMessageDeliveriesWeight"),
		FirstMessageDeliveriesDecay:     vpFloat("FirstMessageDeliveriesDecay"),
		FirstMessageDeliveriesCap:       vpFloat("FirstMessageDeliveriesCap"),
		MeshMessageDeliveriesWeight:     vpFloat("MeshMessageDeliveriesWeight"),
		MeshMessageDeliveriesDecay:      vpFloat("MeshMessageDeliveriesDecay"),
		MeshMessageDeliveriesCap:        vpFloat("MeshMessageDeliveriesCap"),
		MeshMessageDeliveriesThreshold:  vpFloat("MeshMessageDeliveriesThreshold"),
		MeshMessageDeliveriesWindow:     time.Duration(vpInt("MeshMessageDeliveriesWindow", 0, 1<<30)),
		MeshMessageDeliveriesActivation: time.Duration(vpInt("MeshMessageDeliveriesActivation", 0, 1<<40)),
		MeshFailurePenaltyWeight:        vpFloat("MeshFailurePenaltyWeight"),
		MeshFailurePenaltyDecay:         vpFloat("MeshFailurePenaltyDecay"),
		InvalidMessageDeliveriesWeight:  vpFloat("InvalidMessageDeliveriesWeight"),
		InvalidMessageDeliveriesDecay:   vpFloat("InvalidMessageDeliveriesDecay"),
	}
	vpAssume(tp.validate() == nil)
	return tp
}

type vpScoreWorld struct {
	ps    *peerScore
	tp    *TopicScoreParams
	pp    *PeerScoreParams
	st    *peerStats
	ts    *topicStats
	app   float64
	nIP   int
}

// vpArbScore: one peer "p", one scored topic "t0", arbitrary counters within their invariant ranges.
func vpArbScore(withTopic bool) *vpScoreWorld {
	w := &vpScoreWorld{}
	w.app = vpFloat("app_score")
	w.pp = &PeerScoreParams{
		SkipAtomicValidation:        vpBool("peer_skip_atomic"),
		Topics:                      map[string]*TopicScoreParams{},
		TopicScoreCap:               vpFloat("TopicScoreCap"),
		AppSpecificScore:            func(peer.ID) float64 { return w.app },
		AppSpecificWeight:           vpFloat("AppSpecificWeight"),
		IPColocationFactorWeight:    vpFloat("IPColocationFactorWeight"),
		IPColocationFactorThreshold: vpInt("IPColocationFactorThreshold", 0, 8),
		BehaviourPenaltyWeight:      vpFloat("BehaviourPenaltyWeight"),
		BehaviourPenaltyThreshold:   vpFloat("BehaviourPenaltyThreshold"),
		BehaviourPenaltyDecay:       vpFloat("BehaviourPenaltyDecay"),
		DecayInterval:               time.Second,
		DecayToZero:                 0.01,
	}
	if withTopic {
		w.tp = vpArbTopicParams()
		w.pp.Topics[vpT0] = w.tp
	}
	vpAssume(w.pp.validate() == nil)
	w.ps = newPeerScore(w.pp, nil)
	w.st = &peerStats{connected: true, topics: map[string]*topicStats{}, behaviourPenalty: vpFloat("behaviourPenalty")}
	vpAssume(w.st.behaviourPenalty >= 0)
	w.ps.peerStats["p"] = w.st
	// IP colocation: the peer has one IP shared with nIP-1 others
	w.nIP = vpInt("peers_in_ip", 0, 4)
	if w.nIP > 0 {
		w.st.ips = []string{"1.2.3.4"}
		m := map[peer.ID]struct{}{}
		for i := 0; i < 4; i++ {
			if i < w.nIP {
				m[vpPeerName(i)] = struct{}{}
			}
		}
		w.ps.peerIPs["1.2.3.4"] = m
	}
	if withTopic {
		w.ts = &topicStats{
			inMesh:                      vpBool("inMesh"),
			meshTime:                    time.Duration(vpInt("meshTime", 0, 1<<30)),
			firstMessageDeliveries:      vpFloat("firstMessageDeliveries"),
			meshMessageDeliveries:       vpFloat("meshMessageDeliveries"),
			meshMessageDeliveriesActive: vpBool("meshMessageDeliveriesActive"),
			meshFailurePenalty:          vpFloat("meshFailurePenalty"),
			invalidMessageDeliveries:    vpFloat("invalidMessageDeliveries"),
		}
		// counter range invariant (C10_range shows the handlers preserve it)
		vpAssume(w.ts.firstMessageDeliveries >= 0 && w.ts.meshMessageDeliveries >= 0 && w.ts.meshFailurePenalty >= 0 && w.ts.invalidMessageDeliveries >= 0)
		w.st.topics[vpT0] = w.ts
	}
	return w
}

func (w *vpScoreWorld) assumeBounded() {
	// parameters: magnitude bound only (the real validation decides about NaN/Inf); counters and the application's
	// score value: numbers (the counters are shown to stay numbers by the event harnesses, the callback is the application's)
	vpAssume(vpBounded(w.app) && vpNotHuge(w.pp.TopicScoreCap) && vpNotHuge(w.pp.AppSpecificWeight) && vpNotHuge(w.pp.IPColocationFactorWeight) &&
		vpNotHuge(w.pp.BehaviourPenaltyWeight) && vpNotHuge(w.pp.BehaviourPenaltyThreshold) && vpBounded(w.st.behaviourPenalty))
	if w.tp != nil {
		tp, ts := w.tp, w.ts
		vpAssume(vpBounded(tp.TopicWeight) && vpBounded(tp.TimeInMeshWeight) && vpBounded(tp.TimeInMeshCap) && vpBounded(tp.FirstMessageDeliveriesWeight) &&
			vpBounded(tp.MeshMessageDeliveriesWeight) && vpBounded(tp.MeshMessageDeliveriesThreshold) && vpBounded(tp.MeshFailurePenaltyWeight) &&
			vpBounded(tp.InvalidMessageDeliveriesWeight) && vpBounded(ts.firstMessageDeliveries) && vpBounded(ts.meshMessageDeliveries) &&
			vpBounded(ts.meshFailurePenalty) && vpBounded(ts.invalidMessageDeliveries))
	}
}

// nofail: for every parameter set the library accepts, computing a score never panics.
func vpH_C10_nopanic() {
	w := vpArbScore(true)
	panicked := vpPanics(func() { w.ps.score("p") })
	vpAssert(!panicked, "computing a score never fails for parameters accepted by validation")
	vpCover(w.ts.inMesh && w.tp.SkipAtomicValidation, "in mesh, non-atomic validation")
}

// nonan_*: for accepted parameters (magnitudes <= 1e12) the score is a number. Decided for the two halves of
// the formula separately (per-topic components; global components); each half is also shown finite, so
// their sum cannot be NaN either.
func vpH_C10_nonan_global() {
	w := vpArbScore(false)
	w.assumeBounded()
	s := w.ps.score("p")
	vpAssert(s == s && s < 1e40 && s > -1e40, "the global part of the score (P5, P6, P7) is a finite number for accepted parameters")
	vpCover(s < 0, "negative score")
}

func vpH_C10_nonan_topic() {
	w := vpArbScore(true)
	w.assumeBounded()
	vpAssume(w.pp.AppSpecificWeight == 0 && w.pp.IPColocationFactorWeight == 0 && w.pp.BehaviourPenaltyWeight == 0 && w.nIP == 0)
	s := w.ps.score("p")
	vpAssert(s == s, "the topic part of the score (P1..P4, weight, cap) is never NaN for accepted parameters")
	vpCover(s < 0, "negative score")
}

// vpSpecScore transcribes the GossipSub v1.1 score function (spec section "The Score Function").
func vpSpecScore(w *vpScoreWorld) float64 {
	var score float64
	if w.tp != nil {
		tp, ts := w.tp, w.ts
		var t float64
		if ts.inMesh {
			p1 := float64(ts.meshTime / tp.TimeInMeshQuantum) // quantised time in mesh
			if p1 > tp.TimeInMeshCap {
				p1 = tp.TimeInMeshCap
			}
			t += p1 * tp.TimeInMeshWeight
		}
		t += ts.firstMessageDeliveries * tp.FirstMessageDeliveriesWeight
		if ts.meshMessageDeliveriesActive && ts.meshMessageDeliveries < tp.MeshMessageDeliveriesThreshold {
			d := tp.MeshMessageDeliveriesThreshold - ts.meshMessageDeliveries
			t += d * d * tp.MeshMessageDeliveriesWeight
		}
		t += ts.meshFailurePenalty * tp.MeshFailurePenaltyWeight
		t += ts.invalidMessageDeliveries * ts.invalidMessageDeliveries * tp.InvalidMessageDeliveriesWeight
		score += t * tp.TopicWeight
	}
	if w.pp.TopicScoreCap > 0 && score > w.pp.TopicScoreCap {
		score = w.pp.TopicScoreCap
	}
	score += w.app * w.pp.AppSpecificWeight
	var p6 float64
	for _, ip := range w.st.ips { // (whitelist empty in these harnesses)
		nIP := len(w.ps.peerIPs[ip]) // number of peers sharing the IP
		if nIP > w.pp.IPColocationFactorThreshold {
			s := float64(nIP - w.pp.IPColocationFactorThreshold)
			p6 += s * s
		}
	}
	score += p6 * w.pp.IPColocationFactorWeight
	if w.st.behaviourPenalty > w.pp.BehaviourPenaltyThreshold {
		e := w.st.behaviourPenalty - w.pp.BehaviourPenaltyThreshold
		score += e * e * w.pp.BehaviourPenaltyWeight
	}
	return score
}

// score_topic / score_global: the real score() equals the spec formula on an arbitrary state. The two
// halves of the formula (per-topic components P1..P4 with weight and cap; global components P5..P7) are
// compared in separate harnesses to keep each solver query small.
func vpH_C10_score_topic() {
	w := vpArbScore(true)
	w.assumeBounded()
	vpAssume(w.tp.TimeInMeshQuantum != 0)
	vpAssume(w.nIP == 0 && w.st.behaviourPenalty == 0)
	got := w.ps.score("p")
	want := vpSpecScore(w)
	vpAssert(got == want || (got != got && want != want), "score() equals the GossipSub v1.1 scoring function (topic components, weight, cap, application score)")
	vpCover(w.ts.inMesh && w.ts.meshMessageDeliveriesActive && w.ts.meshMessageDeliveries < w.tp.MeshMessageDeliveriesThreshold, "P1 and P3 active")
	vpCover(w.pp.TopicScoreCap > 0 && got == w.pp.TopicScoreCap+w.app*w.pp.AppSpecificWeight && w.app != 0, "topic score capped")
}

func vpH_C10_score_global() {
	w := vpArbScore(false)
	w.assumeBounded()
	got := w.ps.score("p")
	want := vpSpecScore(w)
	vpAssert(got == want || (got != got && want != want), "score() equals the GossipSub v1.1 scoring function (application score, IP colocation, behaviour penalty)")
	vpCover(w.nIP > w.pp.IPColocationFactorThreshold && w.st.behaviourPenalty > w.pp.BehaviourPenaltyThreshold, "P6 and P7 active")
}

// sign: penalty components only ever lower the score, P1/P2 only raise it.
func vpH_C10_sign() {
	w := vpArbScore(true)
	w.assumeBounded()
	tp, ts := w.tp, w.ts
	vpAssume(tp.TimeInMeshQuantum > 0)
	p3 := 0.0
	if ts.meshMessageDeliveriesActive && ts.meshMessageDeliveries < tp.MeshMessageDeliveriesThreshold {
		d := tp.MeshMessageDeliveriesThreshold - ts.meshMessageDeliveries
		p3 = d * d * tp.MeshMessageDeliveriesWeight
	}
	vpAssert(p3 <= 0, "P3 (mesh delivery deficit) never raises the score")
	vpAssert(ts.meshFailurePenalty*tp.MeshFailurePenaltyWeight <= 0, "P3b never raises the score")
	vpAssert(ts.invalidMessageDeliveries*ts.invalidMessageDeliveries*tp.InvalidMessageDeliveriesWeight <= 0, "P4 never raises the score")
	if w.st.behaviourPenalty > w.pp.BehaviourPenaltyThreshold {
		e := w.st.behaviourPenalty - w.pp.BehaviourPenaltyThreshold
		vpAssert(e*e*w.pp.BehaviourPenaltyWeight <= 0, "P7 never raises the score")
	}
	vpAssert(w.ps.ipColocationFactor("p")*w.pp.IPColocationFactorWeight <= 0, "P6 never raises the score")
	vpAssert(ts.firstMessageDeliveries*tp.FirstMessageDeliveriesWeight >= 0, "P2 never lowers the score")
	vpCover(ts.invalidMessageDeliveries > 0 && tp.InvalidMessageDeliveriesWeight < 0, "P4 active")
}
