//go:build verif

package pubsub

import (
	"context"
)

// ---- C15: the per-peer outbound queue is a bounded two-class FIFO ---------------------------------

// seq: K symbolic operations against a two-list reference model, capacity symbolic in 1..3.
// Pop is issued only where it cannot block (non-empty, closed or cancelled); blocking is vpH_C15_blocking.
func vpH_C15_seq() {
	K := 5
	if vpTier() > 0 {
		K = 6
	}
	vpOpt("unwind", 12)
	capacity := vpInt("cap", 1, 3)
	q := newRpcQueue(capacity)
	ctx, cancel := context.WithCancel(context.Background())
	cancelled, closed := false, false
	var mN, mP []*RPC // reference model: normal and urgent class, insertion order
	pushedOK, poppedOK := 0, 0
	for i := 0; i < K; i++ {
		op := vpInt("op", 0, 4)
		r := &RPC{}
		switch op {
		case 0, 1: // Push / UrgentPush, non-blocking
			urgent := op == 1
			if closed {
				vpAssert(vpPanics(func() { q.push(r, urgent, false) }), "push on a closed queue is reported (panics with ErrQueuePushOnClosed)")
				break
			}
			var err error
			if urgent {
				err = q.UrgentPush(r, false)
			} else {
				err = q.Push(r, false)
			}
			full := len(mN)+len(mP) == capacity
			vpAssert((err == ErrQueueFull) == full, "non-blocking push fails with ErrQueueFull exactly when the queue is full")
			vpAssert(err == nil || err == ErrQueueFull, "push returns nil or ErrQueueFull")
			if !full {
				pushedOK++
				if urgent {
					mP = append(mP, r)
				} else {
					mN = append(mN, r)
				}
			}
		case 2: // Pop where it cannot block
			if len(mN)+len(mP) == 0 && !closed && !cancelled {
				break
			}
			got, err := q.Pop(ctx)
			switch {
			case closed:
				vpAssert(err == ErrQueueClosed && got == nil, "Pop on a closed queue returns ErrQueueClosed")
			case len(mP) > 0:
				vpAssert(err == nil && got == mP[0], "urgent RPCs are handed out first, in insertion order")
				mP = mP[1:]
				poppedOK++
			case len(mN) > 0:
				vpAssert(err == nil && got == mN[0], "normal RPCs are handed out in insertion order")
				mN = mN[1:]
				poppedOK++
			default:
				vpAssert(err == ErrQueueCancelled && got == nil, "Pop on an empty queue with a cancelled context returns ErrQueueCancelled")
			}
		case 3:
			cancel()
			cancelled = true
		case 4:
			q.Close()
			closed = true
		}
		vpAssert(q.queue.Len() == len(mN)+len(mP), "queue holds exactly what the model holds (nothing lost or duplicated)")
		vpAssert(q.queue.Len() <= capacity, "queue never exceeds its capacity")
	}
	vpAssert(pushedOK-poppedOK == q.queue.Len(), "conservation: accepted pushes = pops + remaining")
	vpCover(pushedOK == 3 && capacity == 3 && poppedOK == 0, "filled to capacity 3")
	vpCover(poppedOK >= 2 && len(mP) > 0 && K >= 5, "popped two and an urgent one remains")
	vpCover(closed && cancelled, "closed and cancelled")
}

// blocking: Pop blocks exactly when the queue is empty, open and its context is not cancelled; a
// blocking Push blocks exactly when the queue is full and open.
func vpH_C15_blocking() {
	capacity := vpInt("cap", 1, 2)
	q := newRpcQueue(capacity)
	ctx, cancel := context.WithCancel(context.Background())
	n := vpInt("prefill", 0, 2)
	vpAssume(n <= capacity)
	for i := 0; i < n; i++ {
		q.Push(&RPC{}, false)
	}
	cancelled, closed := vpBool("cancelled"), vpBool("closed")
	if cancelled {
		cancel()
	}
	if closed {
		q.Close()
	}
	if vpBool("do_pop") {
		var err error
		blocked := vpBlocks(func() { _, err = q.Pop(ctx) })
		vpAssert(blocked == (n == 0 && !closed && !cancelled), "Pop blocks iff empty, open and not cancelled")
		if !blocked && !closed && n == 0 {
			vpAssert(err == ErrQueueCancelled, "cancelled Pop returns ErrQueueCancelled")
		}
		vpCover(blocked, "pop blocked")
		if blocked {
			cancel() // release the parked Pop (native replay)
		}
	} else if !closed {
		blocked := vpBlocks(func() { q.Push(&RPC{}, true) })
		vpAssert(blocked == (n == capacity), "blocking Push blocks iff the queue is full")
		vpCover(blocked, "push blocked")
		if blocked {
			q.Pop(ctx) // make room so that the parked Push can finish (native replay)
		}
	}
	cancel()
}

// ---- thread harnesses: every interleaving of a few concurrent operations (scheduling choices enumerated by the
// engine, sync.Cond modelled as the runtime implements it) ------------------------------------------------------------

// pop_cancel: Pop on an empty queue || cancellation of its context: whatever the interleaving, Pop returns.
func vpHC_C15_pop_cancel() {
	q := newRpcQueue(1)
	ctx, cancel := context.WithCancel(context.Background())
	var err error
	tp := vpGo(func() { _, err = q.Pop(ctx) })
	tc := vpGo(func() { cancel() })
	vpWait()
	vpAssert(vpThreadDone(tc), "cancel returns")
	popDone := vpThreadDone(tp)
	vpAssert(popDone, "Pop returns promptly with a cancellation error once its context is cancelled (no lost wake-up)")
	if popDone {
		vpAssert(err == ErrQueueCancelled, "a cancelled Pop on an empty queue returns ErrQueueCancelled")
	}
	vpCover(popDone, "pop returned")
	if !vpSymbolic() {
		q.Close() // release a Pop that is still parked (native run only)
		vpWait()
	}
}

// pop_push: a blocked Pop resumes when data arrives.
func vpHC_C15_pop_push() {
	q := newRpcQueue(1)
	ctx := context.Background()
	r := &RPC{}
	var got *RPC
	var err error
	tp := vpGo(func() { got, err = q.Pop(ctx) })
	tq := vpGo(func() { q.Push(r, false) })
	vpWait()
	vpAssert(vpThreadDone(tp) && vpThreadDone(tq), "a blocked Pop resumes when data arrives")
	vpAssert(err == nil && got == r && q.queue.Len() == 0, "the popped RPC is the pushed one; nothing is lost or duplicated")
	vpCover(true, "ran")
}

// push_pop: blocking pushes on a full queue resume when space arrives; capacity is never exceeded.
func vpHC_C15_push_pop() {
	q := newRpcQueue(1)
	ctx := context.Background()
	a, b, c := &RPC{}, &RPC{}, &RPC{}
	q.Push(a, false) // full
	t1 := vpGo(func() { q.Push(b, true) })
	t2 := vpGo(func() { q.Push(c, true) })
	var got *RPC
	t3 := vpGo(func() { got, _ = q.Pop(ctx) })
	vpWait()
	vpAssert(vpThreadDone(t3) && got == a, "Pop hands out the oldest RPC")
	vpAssert(q.queue.Len() <= 1, "the queue never holds more than its capacity, also when several blocked pushers are woken")
	vpAssert(vpThreadDone(t1) != vpThreadDone(t2), "exactly one of the two blocked pushers gets the freed slot; the other keeps waiting")
	vpCover(vpThreadDone(t1), "first pusher won")
	if !vpSymbolic() { // drain so that the parked pusher can finish (native run only)
		q.Pop(ctx)
		vpWait()
		q.Pop(ctx)
	}
}

// two_pushers_two_pops: with capacity 2, two blocked pushers and two Pops, both pushers complete (every freed slot wakes a pusher).
func vpHC_C15_two_pushers() {
	q := newRpcQueue(2)
	ctx := context.Background()
	q.Push(&RPC{}, false)
	q.Push(&RPC{}, false) // full
	t1 := vpGo(func() { q.Push(&RPC{}, true) })
	t2 := vpGo(func() { q.Push(&RPC{}, true) })
	t3 := vpGo(func() { q.Pop(ctx); q.Pop(ctx) })
	vpWait()
	vpAssert(vpThreadDone(t3), "the Pops return")
	vpAssert(vpThreadDone(t1) && vpThreadDone(t2), "a blocked push resumes when space arrives: two freed slots release both pushers")
	vpAssert(q.queue.Len() == 2, "nothing lost")
	vpCover(true, "ran")
	if !vpSymbolic() {
		q.Pop(ctx)
		q.Pop(ctx)
		vpWait()
	}
}

// pop_close: a blocked Pop returns ErrQueueClosed once the queue is closed.
func vpHC_C15_pop_close() {
	q := newRpcQueue(1)
	var err error
	tp := vpGo(func() { _, err = q.Pop(context.Background()) })
	tc := vpGo(func() { q.Close() })
	vpWait()
	vpAssert(vpThreadDone(tp) && vpThreadDone(tc), "Pop returns once the queue is closed")
	vpAssert(err == ErrQueueClosed, "Pop on a closed queue returns ErrQueueClosed")
	vpCover(true, "ran")
}

// two_pops_cancel: two Pops block on an empty queue (separate contexts); one context is cancelled: THAT Pop returns
// whichever of the two registered first (the wake-up must reach every waiter, not just the oldest).
func vpHC_C15_two_pops_cancel() {
	q := newRpcQueue(1)
	ctx2, cancel2 := context.WithCancel(context.Background())
	var e2 error
	t1 := vpGo(func() { q.Pop(context.Background()) }) // (no cancellation callback of its own: fewer scheduling points)
	t2 := vpGo(func() { _, e2 = q.Pop(ctx2) })
	vpWait() // both Pops are parked (in either registration order)
	cancel2()
	vpWait()
	d2 := vpThreadDone(t2)
	vpAssert(d2, "a cancelled Pop returns promptly also when another Pop waits on the same queue")
	if d2 {
		vpAssert(e2 == ErrQueueCancelled, "it reports the cancellation")
	}
	vpAssert(!vpThreadDone(t1), "the other Pop keeps waiting")
	vpCover(d2, "cancelled pop returned")
	if !vpSymbolic() {
		q.Close()
		vpWait()
	}
}

// two_pops_two_pushes: two Pops block on an empty queue of capacity 2, two pushes arrive: both Pops return with one RPC each.
func vpHC_C15_two_pops_two_pushes() {
	q := newRpcQueue(2)
	ctx := context.Background()
	a, b := &RPC{}, &RPC{}
	var g1, g2 *RPC
	t1 := vpGo(func() { g1, _ = q.Pop(ctx) })
	t2 := vpGo(func() { g2, _ = q.Pop(ctx) })
	t3 := vpGo(func() { q.Push(a, false); q.Push(b, false) })
	vpWait()
	vpAssert(vpThreadDone(t3), "the pushes return")
	both := vpThreadDone(t1) && vpThreadDone(t2)
	vpAssert(both, "every queued RPC wakes a waiting Pop: two pushes release both blocked Pops")
	if both {
		vpAssert((g1 == a && g2 == b) || (g1 == b && g2 == a), "each Pop gets one of the two RPCs; nothing lost or duplicated")
	}
	vpCover(both, "both returned")
	if !vpSymbolic() {
		q.Close()
		vpWait()
	}
}
