//go:build verif

package pubsub

import (
	"context"
	"time"

	pb "github.com/libp2p/go-libp2p-pubsub/pb"
	"github.com/libp2p/go-libp2p/core/connmgr"
	"github.com/libp2p/go-libp2p/core/crypto"
	"github.com/libp2p/go-libp2p/core/event"
	"github.com/libp2p/go-libp2p/core/host"
	"github.com/libp2p/go-libp2p/core/network"
	"github.com/libp2p/go-libp2p/core/peer"
	"github.com/libp2p/go-libp2p/core/peerstore"
	"github.com/libp2p/go-libp2p/core/protocol"
	ma "github.com/multiformats/go-multiaddr"
)

// ---------------------------------------------------------------------------------------------------
// Fakes behind the host-facing interfaces. Plain Go: executed symbolically by the engine and natively
// in replays. Only the methods the library calls from event-loop handlers are implemented; the rest
// come from the embedded (nil) interface and would panic, which the engine reports.

type vpStream struct {
	network.Stream
	proto protocol.ID
	conn  *vpConn
}

func (s *vpStream) Protocol() protocol.ID { return s.proto }
func (s *vpStream) Conn() network.Conn    { return s.conn }
func (s *vpStream) Reset() error          { return nil }
func (s *vpStream) Close() error          { return nil }

type vpConn struct {
	network.Conn
	remote peer.ID
	dir    network.Direction
	proto  protocol.ID
	ip     string // remote IPv4 address ("" = an address without IP component)
}

func (c *vpConn) RemotePeer() peer.ID { return c.remote }
func (c *vpConn) Stat() network.ConnStats {
	return network.ConnStats{Stats: network.Stats{Direction: c.dir}}
}
func (c *vpConn) GetStreams() []network.Stream {
	return []network.Stream{&vpStream{proto: c.proto, conn: c}}
}
func (c *vpConn) RemoteMultiaddr() ma.Multiaddr {
	if c.ip == "" {
		return nil
	}
	return ma.StringCast("/ip4/" + c.ip + "/tcp/4001")
}
func (c *vpConn) ID() string                         { return "conn-" + string(c.remote) }

type vpNetwork struct {
	network.Network
	connected map[peer.ID]bool
	dir       map[peer.ID]network.Direction // direction of the (single) connection
	proto     map[peer.ID]protocol.ID       // protocol of its pubsub stream
	ip        map[peer.ID]string            // remote IPv4 address of the connection ("" none)
}

// vpModel_getIPs is evaluated by the engine in place of peerScore.getIPs (multiaddr parsing of the live connections):
// the addresses the fake network states. Natively the real getIPs parses the multiaddrs the fake connections carry.
func vpModel_getIPs(ps *peerScore, p peer.ID) []string {
	res := make([]string, 0, 1)
	if ps.host == nil {
		return nil
	}
	n := ps.host.Network().(*vpNetwork)
	if n.connected[p] && n.ip[p] != "" {
		res = append(res, n.ip[p])
	}
	return res
}

func (n *vpNetwork) Connectedness(p peer.ID) network.Connectedness {
	if n.connected[p] {
		return network.Connected
	}
	return network.NotConnected
}

func (n *vpNetwork) ConnsToPeer(p peer.ID) []network.Conn {
	if !n.connected[p] {
		return nil
	}
	return []network.Conn{&vpConn{remote: p, dir: n.dir[p], proto: n.proto[p], ip: n.ip[p]}}
}

func (n *vpNetwork) Peers() []peer.ID {
	var out []peer.ID
	for p, c := range n.connected {
		if c {
			out = append(out, p)
		}
	}
	return out
}
func (n *vpNetwork) Notify(network.Notifiee)     {}
func (n *vpNetwork) StopNotify(network.Notifiee) {}

type vpConnMgr struct {
	connmgr.ConnManager
	protected map[peer.ID]map[string]bool
	tags      map[peer.ID]map[string]int
}

func (c *vpConnMgr) Protect(p peer.ID, tag string) {
	m := c.protected[p]
	if m == nil {
		m = map[string]bool{}
		c.protected[p] = m
	}
	m[tag] = true
}

func (c *vpConnMgr) Unprotect(p peer.ID, tag string) bool {
	m := c.protected[p]
	delete(m, tag)
	if len(m) == 0 {
		delete(c.protected, p)
	}
	return len(m) > 0
}

func (c *vpConnMgr) IsProtected(p peer.ID, tag string) bool {
	if tag == "" {
		return len(c.protected[p]) > 0
	}
	return c.protected[p][tag]
}
func (c *vpConnMgr) TagPeer(p peer.ID, tag string, v int)             {}
func (c *vpConnMgr) UntagPeer(p peer.ID, tag string)                  {}
func (c *vpConnMgr) UpsertTag(p peer.ID, tag string, f func(int) int) {}

type vpPeerstore struct {
	peerstore.Peerstore
	key crypto.PrivKey
}

func (s *vpPeerstore) PrivKey(peer.ID) crypto.PrivKey                          { return s.key }
func (s *vpPeerstore) AddAddrs(p peer.ID, a []ma.Multiaddr, ttl time.Duration) {}
func (s *vpPeerstore) Addrs(p peer.ID) []ma.Multiaddr                          { return nil }

// vpAddrBook: no certified records (peer exchange then carries peer IDs only).
type vpAddrBook struct{ peerstore.AddrBook }

func (b *vpAddrBook) Addrs(p peer.ID) []ma.Multiaddr { return nil }

type vpHost struct {
	host.Host
	id     peer.ID
	net    *vpNetwork
	cm     *vpConnMgr
	ps     *vpPeerstore
	connectReqs []peer.ID
}

func (h *vpHost) ID() peer.ID                   { return h.id }
func (h *vpHost) Network() network.Network      { return h.net }
func (h *vpHost) ConnManager() connmgr.ConnManager { return h.cm }
func (h *vpHost) Peerstore() peerstore.Peerstore { return h.ps }
func (h *vpHost) EventBus() event.Bus           { return &vpBus{} }
func (h *vpHost) SetStreamHandler(protocol.ID, network.StreamHandler) {}
func (h *vpHost) SetStreamHandlerMatch(protocol.ID, func(protocol.ID) bool, network.StreamHandler) {
}
func (h *vpHost) RemoveStreamHandler(protocol.ID) {}
func (h *vpHost) Connect(ctx context.Context, pi peer.AddrInfo) error {
	h.connectReqs = append(h.connectReqs, pi.ID)
	return nil
}
func (h *vpHost) Close() error { return nil }

// NewStream: opening a stream never completes in the harness world (the attempt is reported as failed; a writer that the
// library respawns for a still-connected peer then parks on its error hand-off until shutdown).
func (h *vpHost) NewStream(ctx context.Context, p peer.ID, pids ...protocol.ID) (network.Stream, error) {
	return nil, errVpNoStream
}

var errVpNoStream = vpErr("no stream can be opened in the harness world")

type vpErr string

func (e vpErr) Error() string { return string(e) }

// vpBus: subscriptions never deliver anything (the library's event-driven goroutines stay idle).
type vpBus struct{ event.Bus }
type vpBusSub struct{ ch chan interface{} }

func (s *vpBusSub) Out() <-chan interface{} { return s.ch }
func (s *vpBusSub) Close() error            { return nil }
func (s *vpBusSub) Name() string            { return "vp" }
func (b *vpBus) Subscribe(eventType interface{}, opts ...event.SubscriptionOpt) (event.Subscription, error) {
	return &vpBusSub{ch: make(chan interface{})}, nil
}

func vpNewHost(id string) *vpHost {
	return &vpHost{id: peer.ID(id),
		net: &vpNetwork{connected: map[peer.ID]bool{}, dir: map[peer.ID]network.Direction{}, proto: map[peer.ID]protocol.ID{}, ip: map[peer.ID]string{}},
		cm:  &vpConnMgr{protected: map[peer.ID]map[string]bool{}, tags: map[peer.ID]map[string]int{}},
		ps:  &vpPeerstore{}}
}

// ---------------------------------------------------------------------------------------------------
// Recording tracer (EventTracer + RawTracer) --------------------------------------------------------

type vpTraceEvt struct {
	typ   pb.TraceEvent_Type
	peer  peer.ID
	topic string
	mid   string
}

type vpRecTracer struct {
	evts []vpTraceEvt
}

func (t *vpRecTracer) Trace(evt *pb.TraceEvent) {
	e := vpTraceEvt{typ: evt.GetType()}
	switch evt.GetType() {
	case pb.TraceEvent_JOIN:
		e.topic = evt.GetJoin().GetTopic()
	case pb.TraceEvent_LEAVE:
		e.topic = evt.GetLeave().GetTopic()
	case pb.TraceEvent_GRAFT:
		e.topic = evt.GetGraft().GetTopic()
		e.peer = peer.ID(evt.GetGraft().GetPeerID())
	case pb.TraceEvent_PRUNE:
		e.topic = evt.GetPrune().GetTopic()
		e.peer = peer.ID(evt.GetPrune().GetPeerID())
	case pb.TraceEvent_ON_NEW_OUTBOUND_STREAM:
		e.peer = peer.ID(evt.GetOnNewOutboundStream().GetPeerID())
	case pb.TraceEvent_ON_CLOSED_OUTBOUND_STREAM:
		e.peer = peer.ID(evt.GetOnClosedOutboundStream().GetPeerID())
	case pb.TraceEvent_DELIVER_MESSAGE:
		e.mid = string(evt.GetDeliverMessage().GetMessageID())
		e.topic = evt.GetDeliverMessage().GetTopic()
	case pb.TraceEvent_PUBLISH_MESSAGE:
		e.mid = string(evt.GetPublishMessage().GetMessageID())
		e.topic = evt.GetPublishMessage().GetTopic()
	case pb.TraceEvent_REJECT_MESSAGE:
		e.mid = string(evt.GetRejectMessage().GetMessageID())
		e.topic = evt.GetRejectMessage().GetReason()
		e.peer = peer.ID(evt.GetRejectMessage().GetReceivedFrom())
	case pb.TraceEvent_DUPLICATE_MESSAGE:
		e.mid = string(evt.GetDuplicateMessage().GetMessageID())
		e.peer = peer.ID(evt.GetDuplicateMessage().GetReceivedFrom())
	case pb.TraceEvent_SEND_RPC:
		e.peer = peer.ID(evt.GetSendRPC().GetSendTo())
	case pb.TraceEvent_DROP_RPC:
		e.peer = peer.ID(evt.GetDropRPC().GetSendTo())
	case pb.TraceEvent_RECV_RPC:
		e.peer = peer.ID(evt.GetRecvRPC().GetReceivedFrom())
	}
	t.evts = append(t.evts, e)
}

func (t *vpRecTracer) count(typ pb.TraceEvent_Type) int {
	n := 0
	for _, e := range t.evts {
		if e.typ == typ {
			n++
		}
	}
	return n
}

func (t *vpRecTracer) countPeer(typ pb.TraceEvent_Type, p peer.ID) int {
	n := 0
	for _, e := range t.evts {
		if e.typ == typ && e.peer == p {
			n++
		}
	}
	return n
}

func (t *vpRecTracer) countTopicPeer(typ pb.TraceEvent_Type, topic string, p peer.ID) int {
	n := 0
	for _, e := range t.evts {
		if e.typ == typ && e.peer == p && e.topic == topic {
			n++
		}
	}
	return n
}

// ---------------------------------------------------------------------------------------------------
// Node construction through the REAL constructors. The library's goroutines are stopped right away
// (context cancelled, parked goroutines dropped) and the instance context is replaced by a live one, so
// that the harness is the only driver of the event-loop handlers — identically in the engine and in a
// native replay.

type vpNode struct {
	ps     *PubSub
	gs     *GossipSubRouter
	h      *vpHost
	tr     *vpRecTracer
	cancel context.CancelFunc
}

type vpNodeCfg struct {
	router  string // gossipsub | floodsub | randomsub
	params  *GossipSubParams
	score   *PeerScoreParams
	thresh  *PeerScoreThresholds
	flood   bool
	doPX    bool
	direct  []peer.ID
	queue   int
	tracer  bool
	policy  MessageSignaturePolicy
	noAuthor bool
	opts    []Option
	maxMsg  int
}

func vpHugeInterval() time.Duration { return time.Duration(1) << 60 }

func vpSmallParams() GossipSubParams {
	p := DefaultGossipSubParams()
	p.D, p.Dlo, p.Dhi, p.Dscore, p.Dout, p.Dlazy = 2, 1, 3, 1, 0, 2
	p.HistoryLength, p.HistoryGossip = 3, 2
	p.Connectors = 0
	p.MaxPendingConnections = 4
	p.PrunePeers = 2
	p.GossipFactor = 0 // gossip target = Dlazy (keeps the float product out of the queries; stated bound)
	return p
}

func vpNewNode(id string, cfg vpNodeCfg) *vpNode {
	h := vpNewHost(id)
	n := &vpNode{h: h}
	ctx0, cancel0 := context.WithCancel(context.Background())
	opts := []Option{WithMessageSignaturePolicy(cfg.policy)}
	if cfg.policy == 0 {
		opts = []Option{WithMessageSignaturePolicy(StrictNoSign)}
	}
	if cfg.noAuthor {
		opts = append(opts, WithNoAuthor())
	}
	if cfg.queue > 0 {
		opts = append(opts, WithPeerOutboundQueueSize(cfg.queue))
	}
	if cfg.maxMsg > 0 {
		opts = append(opts, WithMaxMessageSize(cfg.maxMsg))
	}
	if cfg.tracer {
		n.tr = &vpRecTracer{}
		opts = append(opts, WithEventTracer(n.tr))
	}
	opts = append(opts, cfg.opts...)
	var err error
	switch cfg.router {
	case "floodsub":
		n.ps, err = NewFloodSub(ctx0, h, opts...)
	case "randomsub":
		n.ps, err = NewRandomSub(ctx0, h, 10, opts...)
	default:
		if cfg.params != nil {
			opts = append(opts, WithGossipSubParams(*cfg.params))
		}
		if cfg.score != nil {
			opts = append(opts, WithPeerScore(cfg.score, cfg.thresh))
		}
		if cfg.flood {
			opts = append(opts, WithFloodPublish(true))
		} else {
			opts = append(opts, WithFloodPublish(false))
		}
		if cfg.doPX {
			opts = append(opts, WithPeerExchange(true))
		}
		if len(cfg.direct) > 0 {
			var ai []peer.AddrInfo
			for _, d := range cfg.direct {
				ai = append(ai, peer.AddrInfo{ID: d})
			}
			opts = append(opts, WithDirectPeers(ai))
		}
		n.ps, err = NewGossipSub(ctx0, h, opts...)
		if err == nil {
			n.gs = n.ps.rt.(*GossipSubRouter)
		}
	}
	vpAssume(err == nil)
	// stop every goroutine the constructors started; from here on the harness drives the handlers
	cancel0()
	vpDropPending()
	vpFireAll()
	ctx, cancel := context.WithCancel(context.Background())
	n.ps.ctx = ctx
	n.cancel = cancel
	if n.gs != nil {
		n.gs.cab = &vpAddrBook{} // the real address book has been closed together with the library's goroutines
	}
	// the exiting event loop drops these maps (natively); give the instance fresh empty ones in both modes
	n.ps.peers = make(map[peer.ID]*rpcQueue)
	n.ps.topics = make(map[string]map[peer.ID]peerTopicState)
	return n
}

// ---------------------------------------------------------------------------------------------------
// Peers as seen by the node ------------------------------------------------------------------------

var vpProtos = []protocol.ID{FloodSubID, GossipSubID_v10, GossipSubID_v11, GossipSubID_v12, GossipSubID_v13}

// vpAddPeer makes p a fully established outbound-stream peer with the given protocol, through the same
// calls the event loop makes (handlePendingPeers + newPeerStream case), minus the stream goroutines.
func (n *vpNode) vpAddPeer(p peer.ID, proto protocol.ID, outbound bool) *rpcQueue {
	n.h.net.connected[p] = true
	n.h.net.proto[p] = proto
	if outbound {
		n.h.net.dir[p] = network.DirOutbound
	} else {
		n.h.net.dir[p] = network.DirInbound
	}
	q := newRpcQueue(n.ps.peerOutboundQueueSize)
	n.ps.peers[p] = q
	hello := n.ps.getHelloPacket()
	hello = n.ps.rt.OnNewOutboundStream(p, proto, hello)
	_ = hello
	return q
}

// vpDrain takes every queued RPC out of a peer's queue in the order Pop would hand them out (urgent class first).
func vpDrain(q *rpcQueue) []*RPC {
	q.queueMu.Lock()
	defer q.queueMu.Unlock()
	out := append(append([]*RPC{}, q.queue.priority...), q.queue.normal...)
	q.queue.priority, q.queue.normal = nil, nil
	return out
}

func vpSubRPC(from peer.ID, topic string, sub bool) *RPC {
	return &RPC{RPC: pb.RPC{Subscriptions: []*pb.RPC_SubOpts{{Subscribe: &sub, Topicid: &topic}}}, from: from}
}

func vpStr(s string) *string { return &s }
func vpU64(v uint64) *uint64 { return &v }
func vpB(v bool) *bool       { return &v }

// loop runs the REAL processLoop until it has nothing left to do (it then blocks in its select, which ends the call
// in the engine; natively the goroutine stays parked there and another one is started by the next call, which is
// equivalent since the loop keeps no state of its own). Harnesses that use it end with n.shutdown().
func (n *vpNode) loop() {
	vpBlocks(func() { n.ps.processLoop(n.ps.ctx) })
}

func (n *vpNode) shutdown() {
	n.cancel()
	vpFireAll()
}
