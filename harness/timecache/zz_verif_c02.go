//go:build verif

package timecache

import (
	"context"
	"sync"
	"time"
)

// ---- C02 (cache part): an ID stays remembered for at least the TTL and is forgotten after TTL + sweep ----

type vpCacheOracle struct {
	seen map[string]bool
	at   map[string]time.Time // qualifying sighting: first (first-seen) or latest Add/Has (last-seen)
}

// vpCacheHist drives the real cache with K symbolic operations and compares with the oracle.
func vpCacheHist(last bool, K, nkeys int) {
	ttl := time.Duration(vpInt("ttl", 1, 1<<40))
	var tc TimeCache
	var lk sync.Locker
	var m map[string]time.Time
	if last {
		c := newLastSeenCacheWithSweepInterval(ttl, time.Duration(1)<<60)
		tc, lk, m = c, &c.lk, c.m
	} else {
		c := newFirstSeenCacheWithSweepInterval(ttl, time.Duration(1)<<60)
		tc, lk, m = c, &c.lk, c.m
	}
	tc.Done() // stop the background sweeper: sweeps happen at harness-chosen (symbolic) instants instead
	vpDropPending()
	vpFireAll()
	keys := []string{"k0", "k1", "k2"}[:nkeys]
	or := vpCacheOracle{seen: map[string]bool{}, at: map[string]time.Time{}}
	forgot, kept := false, false
	for i := 0; i < K; i++ {
		op := vpInt("op", 0, 2)
		k := keys[vpInt("key", 0, nkeys-1)]
		dt := time.Duration(vpInt("dt", 0, 1<<41))
		now := time.Now()
		switch op {
		case 0: // Add
			r := tc.Add(k)
			vpAssert(r == !or.seen[k], "Add returns true exactly when the ID is not remembered")
			if or.seen[k] && !now.After(or.at[k].Add(ttl)) {
				vpAssert(!r, "within the TTL of its qualifying sighting the ID is still remembered (Add)")
			}
			if !or.seen[k] || last {
				or.at[k] = now
			}
			or.seen[k] = true
		case 1: // Has
			r := tc.Has(k)
			vpAssert(r == or.seen[k], "Has reports exactly the remembered IDs")
			if or.seen[k] && last {
				or.at[k] = now
			}
		case 2: // time passes, then a sweep
			vpAdvance(dt)
			now = time.Now()
			sweep(lk, m, now)
			for _, kk := range keys {
				if or.seen[kk] {
					if now.After(or.at[kk].Add(ttl)) {
						or.seen[kk] = false // TTL elapsed without qualifying activity: must be forgotten by this sweep
						vpAssert(!tc.Has(kk), "an ID whose TTL has elapsed is forgotten by the next sweep")
						forgot = true
					} else {
						vpAssert(func() bool { _, ok := m[kk]; return ok }(), "a sweep inside the TTL keeps the ID")
						kept = true
					}
				}
			}
		}
		for _, kk := range keys {
			_, ok := m[kk]
			vpAssert(ok == or.seen[kk], "cache holds exactly the remembered IDs")
		}
	}
	vpCover(forgot && kept, "one ID forgotten and one kept by sweeps")
	vpCover(forgot, "forgotten")
}

func vpH_C02_firstseen_hist() {
	if vpTier() > 0 {
		vpCacheHist(false, 6, 3)
	} else {
		vpCacheHist(false, 4, 2)
	}
}

func vpH_C02_lastseen_hist() {
	if vpTier() > 0 {
		vpCacheHist(true, 6, 3)
	} else {
		vpCacheHist(true, 4, 2)
	}
}

// step: the same operations as ONE step from an arbitrary cache state (any subset of 2 keys present with
// arbitrary expiries), so histories of any length are covered for the expiry arithmetic.
func vpH_C02_cache_step() {
	ttl := time.Duration(vpInt("ttl", 1, 1<<40))
	last := vpBool("last_seen")
	m := map[string]time.Time{}
	var lk sync.Mutex
	fc := &FirstSeenCache{m: m, ttl: ttl}
	lc := &LastSeenCache{m: m, ttl: ttl}
	keys := []string{"k0", "k1"}
	now0 := time.Now()
	exp0 := map[string]time.Time{}
	for _, k := range keys {
		// (draws are unconditional so that replay files stay aligned)
		present := vpBool("present")
		e := now0.Add(time.Duration(vpInt("exp_off", -(1 << 41), 1<<40)))
		if present {
			// expiry = sighting + ttl for some sighting in the past
			vpAssume(!e.After(now0.Add(ttl)))
			m[k] = e
			exp0[k] = e
		}
	}
	k := keys[vpInt("key", 0, 1)]
	_, had := exp0[k]
	dt := time.Duration(vpInt("dt", 0, 1<<41))
	switch vpInt("op", 0, 2) {
	case 0:
		var r bool
		if last {
			r = lc.Add(k)
		} else {
			r = fc.Add(k)
		}
		vpAssert(r == !had, "Add is true iff absent")
		e, ok := m[k]
		vpAssert(ok, "present after Add")
		if !had || last {
			vpAssert(e.Equal(now0.Add(ttl)), "expiry = now + ttl for a new (or, last-seen, touched) entry")
		} else {
			vpAssert(e.Equal(exp0[k]), "first-seen: Add does not move the expiry of a known ID")
		}
	case 1:
		var r bool
		if last {
			r = lc.Has(k)
		} else {
			r = fc.Has(k)
		}
		vpAssert(r == had, "Has is true iff present")
		if had {
			if last {
				vpAssert(m[k].Equal(now0.Add(ttl)), "last-seen: Has refreshes the expiry")
			} else {
				vpAssert(m[k].Equal(exp0[k]), "first-seen: Has does not move the expiry")
			}
		} else {
			_, ok := m[k]
			vpAssert(!ok, "Has does not create entries")
		}
	case 2:
		vpAdvance(dt)
		now := time.Now()
		sweep(&lk, m, now)
		for _, kk := range keys {
			e, was := exp0[kk]
			_, ok := m[kk]
			vpAssert(ok == (was && !e.Before(now)), "sweep removes exactly the entries whose expiry lies strictly in the past")
		}
		vpCover(had && exp0[k].Equal(now), "sweep exactly at the expiry instant keeps the entry")
	}
	vpCover(had && last, "last-seen with entry")
}

// background: the REAL sweeper goroutine (ticker loop) receives one tick: it forgets exactly the entries whose expiry
// lies before the instant of that tick, so an ID is never forgotten before its TTL has elapsed.
func vpH_C02_background() {
	S := time.Minute
	ttl := time.Duration(vpInt("ttl", 1, 1<<40))
	m := map[string]time.Time{}
	var lk sync.Mutex
	keys := []string{"k0", "k1"}
	now0 := time.Now()
	present := map[string]bool{}
	exp := map[string]time.Time{}
	for _, k := range keys {
		pr := vpBool("present")
		e := now0.Add(time.Duration(vpInt("exp_off", -(1 << 41), 1<<41)))
		present[k] = pr
		exp[k] = e
		if pr {
			vpAssume(!e.After(now0.Add(ttl))) // expiry = sighting + ttl for a sighting not in the future
			m[k] = e
		}
	}
	ctx, cancel := context.WithCancel(context.Background())
	vpRunWithTick(func() { background(ctx, &lk, m, S) }, S)
	tick := now0.Add(S)
	for _, k := range keys {
		_, ok := m[k]
		if present[k] {
			vpAssert(ok == !exp[k].Before(tick), "the background sweep forgets exactly the entries whose expiry lies before the tick; an ID inside its TTL is kept")
		} else {
			vpAssert(!ok, "the sweep adds nothing")
		}
	}
	vpCover(present["k0"] && present["k1"] && len(m) == 1, "one forgotten, one kept")
	vpCover(present["k0"] && exp["k0"].Equal(tick), "expiry exactly at the tick")
	cancel()
	vpFireAll()
}

// sweep_vs_lookup (THREAD harness): the sweeper and a lookup / insertion of the same ID run concurrently, every
// interleaving of their lock operations, the entry due or not (symbolic expiry): under last-seen an ID that the lookup
// reports as seen - its expiry has just been renewed - is still remembered when both are done (the sweeper must decide
// and delete inside ONE critical section); under first-seen a due entry may go either way but an entry that is not due
// stays.
func vpHC_C02_sweep_vs_lookup() {
	ttl := time.Duration(vpInt("ttl", 1, 1<<30))
	off := time.Duration(vpInt("expiry_offset", -(1 << 30), 1<<30))
	now := time.Now()
	tc := &LastSeenCache{m: map[string]time.Time{}, ttl: ttl}
	tc.m["a"] = now.Add(off)
	tc.m["b"] = now.Add(-1) // (another entry that is due, so that the sweeper has work either way)
	var seen bool
	useAdd := vpBool("second_thread_adds")
	t1 := vpGo(func() { sweep(&tc.lk, tc.m, now) })
	t2 := vpGo(func() {
		if useAdd {
			seen = !tc.Add("a")
		} else {
			seen = tc.Has("a")
		}
	})
	vpWait()
	vpAssert(vpThreadDone(t1) && vpThreadDone(t2), "both return")
	exp, still := tc.m["a"]
	if seen {
		vpAssert(still && !exp.Before(now.Add(ttl)), "an ID just reported as seen under the last-seen strategy stays remembered for a full TTL from that sighting, also when a sweep runs concurrently")
	}
	if useAdd {
		vpAssert(still, "an ID that was just added is remembered")
	}
	if off >= 0 {
		vpAssert(still, "an entry that is not due is not swept")
	}
	_, b := tc.m["b"]
	vpAssert(!b, "a due entry nobody touched is swept")
	vpCover(seen && off < 0, "due entry renewed by the lookup")
	vpCover(!seen && !useAdd, "swept before the lookup")
}
