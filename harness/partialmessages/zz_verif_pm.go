//go:build verif

package partialmessages

import (
	"iter"
	"log/slog"

	pb "github.com/libp2p/go-libp2p-pubsub/pb"
	"github.com/libp2p/go-libp2p/core/peer"
)

// ---- C12 / C13 on the partial-messages extension (package partialmessages) ---------------------------------------
// The extension keeps per-topic, per-group state that remote peers can create (a group is "peer initiated" when a
// peer's message is the first mention of its ID), guarded by per-topic and per-peer limits.

type vpPMRouter struct {
	mesh []peer.ID
	sent int
}

func (r *vpPMRouter) SendRPC(p peer.ID, rpc *pb.PartialMessagesExtension, urgent bool) { r.sent++ }
func (r *vpPMRouter) MeshPeers(topic string) iter.Seq[peer.ID] {
	return func(yield func(peer.ID) bool) {
		for _, p := range r.mesh {
			if !yield(p) {
				return
			}
		}
	}
}
func (r *vpPMRouter) PeerRequestsPartial(p peer.ID, topic string) bool { return true }

// partial_state: K symbolic events from two remote peers - partial-message RPCs with hostile fields (topic absent, group
// ID absent, the extension message itself absent), streams closing, heartbeats - against the real extension with small
// limits: no event panics (C12), and once both peers have left and the group TTL has run out in heartbeats the extension holds NOTHING: no
// group state, no per-peer counters (C13).
func vpPartialState(K int) {
	vpOpt("unwind", 10)
	rt := &vpPMRouter{}
	records := vpBool("application_records_peer_state")
	e := &PartialMessagesExtension[int]{
		Logger: new(slog.Logger),
		OnIncomingRPC: func(from peer.ID, st map[peer.ID]int, rpc *pb.PartialMessagesExtension) error {
			if records {
				st[from]++
			}
			return nil
		},
		OnEmitGossip:                           func(topic string, groupID []byte, gossipPeers []peer.ID, peerStates map[peer.ID]int) {},
		PeerInitiatedGroupLimitPerTopic:        2,
		PeerInitiatedGroupLimitPerTopicPerPeer: 1,
		GroupTTLByHeatbeat:                     1,
	}
	vpAssume(e.Init(rt) == nil)
	peers := []peer.ID{"a", "b"}
	groups := [][]byte{[]byte("g1"), []byte("g2"), []byte("g3"), nil}
	for k := 0; k < K; k++ {
		op := vpInt("op", 0, 3)
		p := peers[vpInt("peer", 0, 1)]
		g := groups[vpInt("group", 0, 3)]
		topicAbsent := vpBool("topic_absent")
		panicked := vpPanics(func() {
			switch op {
			case 0:
				rpc := &pb.PartialMessagesExtension{GroupID: g, PartsMetadata: []byte{1}}
				if !topicAbsent {
					t := "t"
					rpc.TopicID = &t
				}
				e.HandleRPC(p, rpc)
			case 1:
				e.OnClosedOutboundStream(p)
			case 2:
				e.Heartbeat()
			case 3:
				e.HandleRPC(p, nil)
			}
		})
		vpAssert(!panicked, "no partial-message input, stream event or heartbeat makes the extension panic")
	}
	// both peers leave; the group TTL (at least minGroupTTL heartbeats) runs out
	e.OnClosedOutboundStream("a")
	e.OnClosedOutboundStream("b")
	for h := 0; h < minGroupTTL+2; h++ {
		e.Heartbeat()
	}
	vpAssert(len(e.statePerTopicPerGroup) == 0, "no group state is left once the peers that created it have gone and its TTL has run out")
	for _, c := range e.peerInitiatedGroupCounter {
		vpAssert(c.total == 0 && len(c.perPeer) == 0, "no per-peer group counters are left for departed peers")
	}
	vpCover(records, "application records peer state")
}

func vpH_C13_partial_state()  { vpPartialState(2) }
func vpHT_C13_partial_state() { vpPartialState(3) }
func vpH_C12_partial_inputs() { vpPartialState(2) }
